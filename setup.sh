#!/bin/sh
# Offline setup: nothing is built; parse every TLA+ module and check the library imports from /repo.
set -e
cd "$(dirname "$0")"
export TF_CPP_MIN_LOG_LEVEL=3 CUDA_VISIBLE_DEVICES="" PYTHONPATH="/repo:$PWD/harness"
/venv/bin/python harness/selfcheck.py
