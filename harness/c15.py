"""C15 - Conditional calibration and CDF functions are bounded, monotone by construction.

spec: ConditionalOps.tla / ConditionalFns.tla (abstract softmax/sigmoid; exact padding, clamp, cyclic, size arithmetic),
      TraceConditional.tla (derived parameters returned by the real call = refinement mapping; contract on outputs)
"""
import itertools
import json
from fractions import Fraction

import numpy as np

import common
from common import log
from latcfg import rat

DEN, XDEN, ODEN = 2 ** 12, 64, 2 ** 14


def ints(a, den):
  return [int(round(float(v) * den)) for v in np.asarray(a, dtype=np.float64).reshape(-1)]


def form(mono, cmin, cmax, cyc, miss_in, miss_out, imin, imax, omin, omax):
  return {"mono": mono, "clampMin": cmin, "clampMax": cmax, "cyclic": cyc, "hasMissIn": miss_in is not None,
          "hasMissOut": miss_out is not None, "imin": rat(imin), "imax": rat(imax), "omin": rat(omin), "omax": rat(omax)}


def param_size(c, K):
  return K - c["clampMax"] - c["clampMin"] - c["cyclic"] + c["hasMissIn"] - c["hasMissOut"]


def valid(c):
  return not (c["mono"] == "none" and (c["clampMin"] or c["clampMax"])) and not (c["mono"] == "increasing" and c["cyclic"]) \
      and (not c["hasMissOut"] or c["hasMissIn"])


def pwl_fn_events(tf, tfl, ctx, rng, n, with_layer=True):
  from tensorflow_lattice.python import conditional_pwl_calibration as cpc
  evs = []
  combos = list(itertools.product(["none", "increasing"], [False, True], [False, True], [False, True], [None, 1.25], [None, 0.5]))
  # the inputs of the two listed findings are part of every run (findings/known_findings.json: C15-*)
  pinned = [[0.0, -40.0], [0.0, 200.0]]
  for j in range(n + len(pinned)):
    pin = pinned[j - n] if j >= n else None
    mono, cmin, cmax, cyc, miss_in, miss_out = combos[j % len(combos)] if pin is None else ("increasing", True, True, False, None, None)
    imin = Fraction(int(rng.integers(-8, 4)), 4)
    imax = imin + Fraction(int(rng.integers(1, 16)), 4)
    omin = Fraction(int(rng.integers(-8, 4)), 4)
    omax = omin + Fraction(int(rng.integers(1, 16)), 4)
    if pin is not None:
      imin, imax, omin, omax = Fraction(0), Fraction(1), Fraction(0), Fraction(1)
    if miss_in is not None:
      miss_in = float(imin) + 0.25
    if miss_out is not None:
      miss_out = float(omin + omax) / 2
    c = form(mono, cmin, cmax, cyc, miss_in, miss_out, imin, imax, omin, omax)
    if not valid(c):
      continue
    K = int(rng.integers(2, 7)) if pin is None else 4
    psize = param_size(c, K)
    if psize < 1:
      continue
    units = int(rng.choice([1, 2]))
    mag = float(rng.choice([1.0, 5.0, 50.0]))
    B = 9
    kin = rng.uniform(-mag, mag, size=(B, units, K - 2)).astype(np.float32)
    kout = rng.uniform(-mag, mag, size=(B, units, psize)).astype(np.float32)
    # the same parameters for every example, so that examples differ in x only (pairs for monotonicity)
    if pin is not None:
      kin[:, :, :] = np.asarray(pin, dtype=np.float32)
      kout[:, :, :] = np.asarray([1.0, 2.0], dtype=np.float32)
    elif j % 3 != 2 and K >= 4:
      # one interior segment collapsed to length exactly 0 (softmax underflow), everything else ordinary: the function
      # has a jump there, and every input to its right must still see the full increment of that segment
      kin = rng.uniform(-1, 1, size=kin.shape).astype(np.float32)
      kin[:, :, int(rng.integers(0, K - 3))] = -200.0
    kin[:] = kin[0]
    kout[:] = kout[0]
    xs = np.concatenate([[float(imin), float(imax)], rng.integers(int(imin * XDEN) - 32, int(imax * XDEN) + 33, size=B - 2) / float(XDEN)])
    if miss_in is not None:
      xs[2] = miss_in
    X = np.repeat(xs[:, None], units, axis=1).astype(np.float32)
    site = {"layer": "pwl_calibration_fn"}
    call = {"c": c, "K": K, "units": units, "mag": mag}
    try:
      out, deltas, kern = cpc.pwl_calibration_fn(
          inputs=tf.constant(X), keypoint_input_parameters=tf.constant(kin), keypoint_output_parameters=tf.constant(kout),
          keypoint_input_min=float(imin), keypoint_input_max=float(imax), keypoint_output_min=float(omin),
          keypoint_output_max=float(omax), units=units, monotonicity=mono, clamp_min=cmin, clamp_max=cmax, is_cyclic=cyc,
          missing_input_value=miss_in, missing_output_value=miss_out, return_derived_parameters=True)
    except Exception as ex:  # pylint: disable=broad-except
      evs.append({"ev": "Raised", "site": site, "exc": repr(ex)[:300], "call": call})
      continue
    out, deltas, kern = out.numpy(), deltas.numpy(), kern.numpy()
    for u in range(units):
      # a derived segment shorter than the float32 spacing of the keypoint values (softmax of parameters that
      # differ by more than ~16): the end point of such a segment cannot be represented, see the known finding
      dl = deltas[0, u]
      res = 8 * 1.2e-7 * max(1.0, abs(float(imin)), abs(float(imax)))
      fin = common.all_finite(list(dl))
      kps = float(imin) + np.concatenate([[0.0], np.cumsum(dl)]) if fin else np.zeros(1)
      site = {"layer": "pwl_calibration_fn",
              "sub_resolution_segment": bool(fin and float(np.min(dl)) < res),
              # a segment so short that the float32 rounding of (x - keypoint) is amplified beyond the comparison
              # tolerance by the division through its length (relevant for C14's comparison of two float32 evaluations)
              "short_segment": bool(fin and float(np.min(dl)) < 2e-3 * max(1.0, abs(float(imin)), abs(float(imax)))),
              # the two ways the known finding shows: an end segment below resolution (the clamp / cyclic end value
              # is not reached) and a probe sitting on the left end of a collapsed segment (0/0)
              "end_segment_sub_resolution": bool(fin and (float(dl[0]) < res or float(dl[-1]) < res)),
              # the end value is computed as kernel sum weighted by (x - keypoint) / length: the float32 rounding of the
              # keypoint is amplified by spacing / length, e.g. 0.3% of the last increment at 56 spacings, 4% at 12
              "end_segment_near_resolution": bool(fin and (float(dl[0]) < 16 * res or float(dl[-1]) < 16 * res)),
              "probe_on_collapsed_keypoint": bool(fin and any(float(dl[i]) < res and np.any(np.abs(xs - kps[i]) <= res)
                                                             for i in range(len(dl))))}
      layer_out = []
      if with_layer:
        # C14: a PWLCalibration layer holding the derived keypoints and kernel
        kp = float(imin) + np.concatenate([[0.0], np.cumsum(deltas[0, u])])
        if np.all(np.diff(kp) > 1e-6):
          lay = tfl.layers.PWLCalibration(input_keypoints=[float(v) for v in kp], units=1)
          lay.build((None, 1))
          lay.kernel.assign(kern[0, u].reshape(-1, 1).astype(np.float32))
          layer_out = ints(lay(tf.constant(xs.reshape(-1, 1).astype(np.float32))).numpy()[:, 0], ODEN)
      vals = list(out[:, u]) + list(deltas[0, u]) + list(kern[0, u])
      if not common.all_finite(vals):
        evs.append({"ev": "NonFinite", "site": site, "call": call})
        continue
      evs.append({"ev": "PwlFn", "c": c, "den": DEN, "deltas": ints(deltas[0, u], DEN), "kern": ints(kern[0, u], DEN),
                  "xden": XDEN, "xs": ints(xs, XDEN), "oden": ODEN, "outs": ints(out[:, u], ODEN), "layer": layer_out,
                  "missIn": int(round(miss_in * XDEN)) if miss_in is not None else 0,
                  "missOut": int(round(miss_out * ODEN)) if miss_out is not None else 0, "tolu": 8, "ctol": 24 + 4 * K, "site": site, "call": call})
    ctx.count(units, nontrivial_key=("pwlfn", j))
  return evs


def form_events(tf, ctx):
  """Documented call forms, including omitted interior keypoint parameters (keypoint_input_parameters=None)."""
  from tensorflow_lattice.python import conditional_pwl_calibration as cpc
  evs = []
  for mono, cmin, cmax, cyc, miss in itertools.product(["none", "increasing"], [False, True], [False, True], [False, True], [None, 0.25]):
    c = form(mono, cmin, cmax, cyc, miss, None, 0, 1, 0, 1)
    if not valid(c):
      continue
    for given, nin in ((False, 0), (True, 0), (True, 2)):
      K = nin + 2
      psize = param_size(c, K)
      if psize < 1:
        continue
      kout = tf.zeros((3, 1, psize))
      kin = tf.zeros((3, 1, nin)) if given else None
      try:
        cpc.pwl_calibration_fn(inputs=tf.constant([[0.1], [0.5], [0.9]]), keypoint_input_parameters=kin,
                               keypoint_output_parameters=kout, monotonicity=mono, clamp_min=cmin, clamp_max=cmax,
                               is_cyclic=cyc, missing_input_value=miss)
        ok = True
      except Exception:  # pylint: disable=broad-except
        ok = False
      evs.append({"ev": "Form", "c": c, "nInputParams": nin, "given": given, "accepted": ok,
                  "site": {"layer": "pwl_calibration_fn", "interior_parameters_omitted": not given},
                  "call": {"c": c, "given": given, "nin": nin}})
      ctx.count(1, nontrivial_key=("form", mono, cmin, cmax, cyc, miss, given, nin))
  return evs


def cdf_events(tf, tfl, ctx, rng, n, with_fn=True, trained=0):
  """trained > 0: that many of the layers with a learned input scaling are first driven by real optimizer steps against
  the monotonicity (the scaling is kept non-negative by the layer's own weight constraint, which the optimizer
  re-applies); the recorded scaling is then the layer's, whatever it is."""
  from tensorflow_lattice.python import conditional_cdf
  import tf_keras as keras
  evs = []
  for j in range(n + trained):
    hostile = j >= n
    sf = int(rng.choice([1, 1, 2]))
    nin = sf * int(rng.integers(1, 3))
    units = sf * int(rng.integers(1, 3))
    nk = int(rng.integers(1, 5))
    act = "relu6" if j % 2 == 0 else "sigmoid"
    red = ["mean", "geometric_mean", "none"][j % 3]
    scaling_type = ["fixed", "learned_shared", "learned_per_input"][(j // 3) % 3]
    if hostile:
      scaling_type = ["learned_shared", "learned_per_input"][j % 2]
    try:
      layer = tfl.layers.CDF(num_keypoints=nk, units=units, activation=act, reduction=red, sparsity_factor=sf,
                             input_scaling_type=scaling_type, input_scaling_init=float(rng.integers(1, 9)) / 2)
      # CDF.build() does not mark the layer as built, so Keras builds it (again) on the first call: call once
      # before assigning weights
      layer(tf.zeros((1, nin)))
    except Exception as ex:  # pylint: disable=broad-except
      evs.append({"ev": "Raised", "site": {"layer": "cdf"}, "exc": repr(ex)[:300], "call": {"j": j}})
      continue
    G = units // sf
    kernel = (rng.integers(-64, 65, size=(1, nin, nk, G)) / 16.0).astype(np.float32)
    layer.kernel.assign(kernel)
    if scaling_type == "learned_per_input":
      sc = (rng.integers(0, 17, size=(1, nin, 1, 1)) / 4.0).astype(np.float32)       # non-negative scaling
      layer.input_scaling.assign(sc)
      scale = sc.reshape(-1)
    else:
      scale = np.full(nin, float(np.asarray(layer.input_scaling).reshape(-1)[0]))
    base = rng.integers(-96, 97, size=(4, nin)) / 16.0
    up = base + rng.integers(0, 33, size=(4, nin)) / 16.0            # componentwise larger: pairs for monotonicity
    X = np.concatenate([base, up]).astype(np.float32)
    if hostile:
      opt = keras.optimizers.SGD(learning_rate=float(10 ** rng.uniform(0, 2)))
      for _ in range(int(rng.integers(1, 5))):
        with tf.GradientTape() as tape:
          loss = tf.reduce_mean(layer(tf.constant(up.astype(np.float32))) - layer(tf.constant(base.astype(np.float32))))
        tv = layer.trainable_variables
        grads = [g if g is not None else tf.zeros_like(v) for g, v in zip(tape.gradient(loss, tv), tv)]
        opt.apply_gradients(zip(grads, tv))
      kernel = np.round(layer.kernel.numpy() * 16) / 16          # back on the trace's 1/16 grid
      layer.kernel.assign(kernel.astype(np.float32))
      sc = np.asarray(layer.input_scaling).astype(np.float64)
      sc = np.round(np.clip(sc, -64, 64) * 16) / 16
      layer.input_scaling.assign(sc.astype(np.float32))
      scale = sc.reshape(-1) if scaling_type == "learned_per_input" else np.full(nin, float(sc.reshape(-1)[0]))
    out = layer(tf.constant(X)).numpy()
    out = out.reshape(len(X), -1)
    fn_out = []
    if with_fn and red in ("mean", "none"):
      loc = np.repeat(kernel, len(X), axis=0)
      scl = np.repeat(scale.reshape(1, nin, 1, 1), len(X), axis=0).astype(np.float32) * np.ones_like(loc)
      f = conditional_cdf.cdf_fn(inputs=tf.constant(X), location_parameters=tf.constant(loc), scaling_parameters=tf.constant(scl),
                                 units=units, activation=act, reduction=red, sparsity_factor=sf).numpy().reshape(len(X), -1)
      fn_out = [ints(r, ODEN) for r in f]
    if not common.all_finite(out.reshape(-1)):
      evs.append({"ev": "NonFinite", "site": {"layer": "cdf"}, "call": {"j": j}})
      continue
    evs.append({"ev": "Cdf", "act": act, "red": red, "sf": sf, "units": units, "nin": nin, "nk": nk, "kden": 16,
                "kernel": ints(kernel.reshape(-1), 16), "scale": ints(scale, 16), "xden": 16, "xs": [ints(x, 16) for x in X],
                "oden": ODEN, "outs": [ints(r, ODEN) for r in out], "fn": fn_out, "tolu": 8,
                "slack": int(ODEN * 2e-3) if red == "geometric_mean" else 0, "site": {"layer": "cdf"},
                "call": {"act": act, "red": red, "sf": sf, "units": units, "nin": nin, "nk": nk}})
    ctx.count(1, nontrivial_key=("cdf", j))
  return evs


def run(ctx):
  tf, tfl = common.import_tf()
  ctx.rule = ("PwlFn: every valid combination of monotonicity / clamps / cyclic / missing modes x random free-form "
              "parameters of magnitude up to 50, 2-6 keypoints, units 1-2, inputs at both ends, inside, outside and at the "
              "missing value, with return_derived_parameters=True; Form: every documented call form incl. omitted "
              "interior keypoint parameters; Cdf: CDF layers over activations, reductions, sparsity factors, scaling "
              "types with non-negative scaling and componentwise ordered input pairs, plus layers with a learned scaling "
              "after real optimizer steps against the monotonicity")
  ctx.model("MC_ConditionalFns", "Cond_q.cfg")
  ctx.model("MC_ConditionalFns", "Cond_known.cfg", expect_violation="InvNoneFormAccepted",
            note="self-test: with num_keypoints = 0 for omitted interior parameters (the code before the fix: commit) no "
                 "documented None form is accepted")
  ctx.exhaustive = True
  rng = np.random.default_rng(ctx.seed + 1515)
  q = ctx.quick
  events = pwl_fn_events(tf, tfl, ctx, rng, 192 if q else 2400, with_layer=False) + form_events(tf, ctx) \
      + cdf_events(tf, tfl, ctx, rng, 60 if q else 900, with_fn=False, trained=24 if q else 160)
  log("  %d events" % len(events))
  ctx.sample({k: events[0].get(k) for k in ("ev", "c", "deltas", "kern", "xs", "outs", "den", "oden")})
  ctx.validate("TraceConditional", events)
  return ctx.finish()


def replay(ctx, path):
  """The cases are regenerated from the seed recorded in the replay file: re-execute and compare."""
  return common.rerun_replay(ctx, path, run)
