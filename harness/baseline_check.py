"""Compares a pytest junit xml with /root/.vp/BASELINE.json: every stable_pass test must still pass."""
import json
import sys
import xml.etree.ElementTree as ET


def main(path):
  base = json.load(open("/root/.vp/BASELINE.json"))
  want = set(base["stable_pass"])
  passed = set()
  for tc in ET.parse(path).getroot().iter("testcase"):
    name = "%s::%s" % (tc.get("classname"), tc.get("name"))
    if not any(ch.tag in ("failure", "error", "skipped") for ch in tc):
      passed.add(name)
  missing = sorted(want - passed)
  print("baseline: %d stable tests, %d of them pass now, %d missing; %d tests pass in total"
        % (len(want), len(want & passed), len(missing), len(passed)))
  for m in missing[:20]:
    print("  NOT PASSING:", m)
  newly = sorted(passed - want)
  if newly:
    print("  newly passing (not in baseline): %d, e.g. %s" % (len(newly), newly[:3]))
  return 1 if missing else 0


if __name__ == "__main__":
  sys.exit(main(sys.argv[1]))
