"""Shared machinery: TLC runner, trace validation, findings matcher, evidence writer.

Everything a property module needs:

    ctx = Ctx("C04", tier, seed)
    ctx.model("MC_PwlConstraint", "PwlConstraint_q.cfg")        # design-level TLC run
    cases = ctx.tlc_cases("MC_PwlConstraint", "PwlCases_q.cfg")  # TLC writes the cases (spec -> code)
    events = [...]                                                # real-code observations
    ctx.validate("TracePwl", events)                             # code -> spec, verdict by TLC
    ctx.finish()                                                 # findings match, evidence, exit code

Verdict policy (DESIGN.md section 0): VIOLATION only from a contract clause that TLC found false
on an event recorded from the real code; clauses starting with "DRIFT" are conformance drift
(reported, exit 0); machinery faults exit 2.
"""
import json
import os
import re
import shutil
import subprocess
import sys
import time
from concurrent.futures import ThreadPoolExecutor

VERIF = os.path.dirname(os.path.dirname(os.path.abspath(__file__)))
SPEC = os.path.join(VERIF, "spec")
MC = os.path.join(VERIF, "mc")
# VERIF_SCRATCH redirects work files, replay files and evidence (used when a check is run against a seeded
# change in a scratch worktree, so that the committed evidence of the real tree is not overwritten)
_SCR = os.environ.get("VERIF_SCRATCH")
WORK = os.path.join(_SCR or VERIF, ".work")
OUT = os.path.join(_SCR or VERIF, "out")
EVID = os.path.join(_SCR or VERIF, "evidence")
FINDINGS = os.path.join(VERIF, "findings", "known_findings.json")
REPO = os.environ.get("VERIF_REPO", "/repo")
TLA_CP = "/opt/veriftools/tla/tla2tools.jar:/opt/veriftools/tla/CommunityModules-deps.jar"
NCPU = os.cpu_count() or 4


class MachineryError(Exception):
  pass


def log(*a):
  print(*a, flush=True)


# ----------------------------------------------------------------------------------------------
# TLC
# ----------------------------------------------------------------------------------------------
class TlcResult:
  def __init__(self, out, rc, wall):
    self.out, self.rc, self.wall = out, rc, wall
    m = re.findall(r"(\d+) states generated, (\d+) distinct states found", out)
    self.generated = int(m[-1][0]) if m else 0
    self.distinct = int(m[-1][1]) if m else 0
    m = re.search(r"depth of the complete state graph search is (\d+)", out)
    self.depth = int(m.group(1)) if m else 0
    self.violated = re.findall(r"Invariant (\w+) is violated", out)
    self.violated += re.findall(r"Action property (\w+) is violated", out)
    if re.search(r"Temporal properties were violated", out):
      self.violated.append("TemporalProperty")
    self.completed = "Model checking completed. No error has been found." in out
    self.errors = [l for l in out.splitlines() if l.startswith("Error:")]
    # zero-coverage actions (vacuity): "<Action line ... of module M>: 0:0"
    self.zero_cov = re.findall(r"<(\w+) line \d+, col \d+ to line \d+, col \d+ of module (\w+)>: 0:0", out)


def run_tlc(module, cfg, *, workers=None, env=None, extra=(), timeout=3600, tag=None,
            coverage=False, heap="6g", deque=False):
  """Runs TLC on spec/<module>.tla with mc/<cfg>. Returns TlcResult."""
  tag = tag or (module + "_" + os.path.splitext(os.path.basename(cfg))[0])
  meta = os.path.join(WORK, "tlc", tag + "_%d" % os.getpid())
  shutil.rmtree(meta, ignore_errors=True)
  os.makedirs(meta, exist_ok=True)
  cfgp = cfg if os.path.isabs(cfg) else os.path.join(MC, cfg)
  cmd = ["java", "-Xss64m", "-XX:+UseParallelGC", "-XX:ParallelGCThreads=%d" % (2 if (workers or NCPU) == 1 else 8), "-Xmx" + heap, "-DTLA-Library=" + SPEC,
         "-Djava.io.tmpdir=" + meta]      # TLC's and SANY's temporary files stay in the run's own directory, not in /tmp
  if deque:
    cmd.append("-Dtlc2.tool.queue.IStateQueue=StateDeque")
  cmd += ["-cp", TLA_CP, "tlc2.TLC", "-metadir", meta, "-noGenerateSpecTE",
          "-workers", str(workers or NCPU), "-config", cfgp]
  if coverage:
    cmd += ["-coverage", "1"]
  cmd += list(extra) + [os.path.join(SPEC, module + ".tla")]
  e = dict(os.environ)
  e.pop("JAVA_TOOL_OPTIONS", None)
  if env:
    e.update({k: str(v) for k, v in env.items()})
  t0 = time.time()
  try:
    p = subprocess.run(cmd, cwd=SPEC, env=e, stdout=subprocess.PIPE, stderr=subprocess.STDOUT,
                       timeout=timeout, text=True)
    out, rc = p.stdout, p.returncode
  except subprocess.TimeoutExpired as ex:
    out = (ex.stdout or b"").decode() if isinstance(ex.stdout, bytes) else (ex.stdout or "")
    out += "\nTIMEOUT"
    rc = 124
  finally:
    shutil.rmtree(meta, ignore_errors=True)
  return TlcResult(out, rc, time.time() - t0)


def sany(module):
  cmd = ["java", "-DTLA-Library=" + SPEC, "-cp", TLA_CP, "tla2sany.SANY",
         os.path.join(SPEC, module + ".tla")]
  p = subprocess.run(cmd, cwd=SPEC, stdout=subprocess.PIPE, stderr=subprocess.STDOUT, text=True)
  ok = p.returncode == 0 and "Semantic errors" not in p.stdout and "***Parse Error***" not in p.stdout \
      and "Fatal errors" not in p.stdout
  return ok, p.stdout


# ----------------------------------------------------------------------------------------------
# Numbers in traces: integers over a shared power-of-two denominator
# ----------------------------------------------------------------------------------------------
def fx_scale(values, bits=22, max_e=20):
  """Largest e <= max_e with max|v| * 2^e < 2^bits (values: iterable of finite floats)."""
  m = 0.0
  for v in values:
    a = abs(float(v))
    if a > m:
      m = a
  e = max_e
  while e > -40 and m * (2.0 ** e) >= 2.0 ** bits:
    e -= 1
  return e


def fx(v, e):
  v = float(v)
  if v != v:
    return "nan"
  if v in (float("inf"), float("-inf")):
    return "inf" if v > 0 else "-inf"
  return int(round(v * (2.0 ** e)))


def all_finite(values):
  for v in values:
    v = float(v)
    if v != v or v in (float("inf"), float("-inf")):
      return False
  return True


# ----------------------------------------------------------------------------------------------
# Known findings
# ----------------------------------------------------------------------------------------------
def load_findings():
  if not os.path.exists(FINDINGS):
    return []
  with open(FINDINGS) as f:
    return json.load(f)["findings"]


def finding_matches(f, prop, clause, site):
  if f.get("status") != "open" or f["property"] != prop:
    return False
  m = f["match"]
  if "clause" in m and m["clause"] != clause:
    return False
  if "clause_in" in m and clause not in m["clause_in"]:
    return False
  for k, v in m.get("site", {}).items():
    if site.get(k) != v:
      return False
  return True


# ----------------------------------------------------------------------------------------------
# Context of one check run
# ----------------------------------------------------------------------------------------------
class Ctx:
  def __init__(self, prop, tier, seed, replay=None, work=None):
    self.prop, self.tier, self.seed, self.replay = prop, tier, seed, replay
    self.t0 = time.time()
    self.work = work or os.path.join(WORK, prop)
    shutil.rmtree(self.work, ignore_errors=True)
    os.makedirs(self.work, exist_ok=True)
    self.states = 0
    self.transitions = 0
    self.model_runs = []
    self.traces_validated = 0
    self.events_validated = 0
    self.evaluations = 0
    self.nontrivial = set()
    self.samples = []
    self.bad = []            # (event, clause)
    self.drift = []
    self.vacuity = []
    self.notes = []
    self.assumptions = []
    self.rule = ""
    self.exhaustive = False
    self.extra = {}
    self.design_violations = []
    self.quick = tier == "quick"

  # ---- design level ---------------------------------------------------------------------------
  def model(self, module, cfg, *, expect_violation=None, env=None, workers=None, timeout=3600,
            coverage=None, extra=(), note=None, heap="6g"):
    """Exhaustive (or simulated) TLC run of a design-level model.

    A design-level invariant failure is not a verdict about the code; it is a machinery-level
    stop (exit 2) unless `expect_violation` names the invariant that is expected to fail (used
    for self-tests showing that a contract is not vacuous / that a known finding exists at
    design level)."""
    if coverage is None:      # -coverage costs 2-3x on the recursion-heavy models: thorough tier only
      coverage = not self.quick
    r = run_tlc(module, cfg, env=env, workers=workers, timeout=timeout, coverage=coverage,
                extra=extra, heap=heap)
    rec = {"module": module, "cfg": cfg, "generated": r.generated, "distinct": r.distinct,
           "depth": r.depth, "wall_s": round(r.wall, 1), "violated": r.violated}
    if note:
      rec["note"] = note
    self.model_runs.append(rec)
    self.states += r.distinct
    self.transitions += r.generated
    for a, m in r.zero_cov:
      self.vacuity.append("%s.%s never taken in %s" % (m, a, cfg))
    if expect_violation:
      if expect_violation not in r.violated:
        self._dump(r, module, cfg)
        raise MachineryError("expected design-level violation of %s in %s/%s did not occur"
                             % (expect_violation, module, cfg))
      log("  model %-28s %-28s expected violation of %s found (%d states, %.1fs)"
          % (module, cfg, expect_violation, r.distinct, r.wall))
      return r
    if r.violated:
      self._dump(r, module, cfg)
      self.design_violations.append((module, cfg, r.violated))
      raise MachineryError("design-level model %s/%s violates %s: the specification (not the code) "
                           "is inconsistent with its contract; see %s"
                           % (module, cfg, r.violated, self.work))
    if not r.completed and "-simulate" not in " ".join(extra):
      self._dump(r, module, cfg)
      raise MachineryError("TLC did not complete on %s/%s (rc=%s): %s"
                           % (module, cfg, r.rc, "; ".join(r.errors[:3])))
    if "-simulate" in " ".join(extra) and (r.errors and not r.violated):
      real = [e for e in r.errors if "Error:" in e]
      if real:
        self._dump(r, module, cfg)
        raise MachineryError("TLC simulation error on %s/%s: %s" % (module, cfg, real[:2]))
    log("  model %-28s %-28s %9d states %10d transitions depth %3d  %.1fs"
        % (module, cfg, r.distinct, r.generated, r.depth, r.wall))
    return r

  def model_bg(self, module, cfg, **kw):
    """Starts a design-level model run in the background (it does not depend on the code); joined
    by join_models() / finish()."""
    if not hasattr(self, "_bg"):
      self._bg = []
      self._bg_pool = ThreadPoolExecutor(max_workers=4)
    self._bg.append(self._bg_pool.submit(self.model, module, cfg, **kw))

  def join_models(self):
    for f in getattr(self, "_bg", []):
      f.result()
    self._bg = []

  def _dump(self, r, module, cfg):
    p = os.path.join(self.work, "tlc_%s_%s.out" % (module, os.path.basename(cfg)))
    with open(p, "w") as f:
      f.write(r.out)
    log("  TLC output saved to", p)
    log("\n".join(r.out.splitlines()[-40:]))

  def tlc_cases(self, module, cfg, env=None, name="cases"):
    """Runs a case-generating TLC config: the module ASSUMEs ndJsonSerialize(IOEnv.CASES_OUT, ...)
    of a set built from the same definitions as its Init. Returns the list of cases."""
    path = os.path.join(self.work, "%s_%s.ndjson" % (name, os.path.splitext(os.path.basename(cfg))[0]))
    e = {"CASES_OUT": path}
    e.update(env or {})
    r = run_tlc(module, cfg, env=e, workers=1, coverage=False)
    if not os.path.exists(path) or (r.errors and not r.completed):
      self._dump(r, module, cfg)
      raise MachineryError("case generation failed for %s/%s" % (module, cfg))
    with open(path) as f:
      cases = [json.loads(l) for l in f if l.strip()]
    self.model_runs.append({"module": module, "cfg": cfg, "cases": len(cases), "wall_s": round(r.wall, 1)})
    log("  cases %-28s %-28s %9d cases  %.1fs" % (module, cfg, len(cases), r.wall))
    return cases

  # ---- code -> spec ---------------------------------------------------------------------------
  def validate(self, trace_module, events, cfg=None, shards=None, per_trace=None, env=None,
               timeout=1800, stateful=False):
    """Validates events recorded from the real code with TLC on spec/<trace_module>.tla.

    Events are dicts; "i" (global index) is added here. For stateless contracts the events are
    sharded over parallel TLC processes; `stateful=True` keeps all events of a trace ("tr" key)
    in the same shard, in order. Returns list of (event, clause)."""
    if not events:
      return []
    cfg = cfg or (trace_module + ".cfg")
    base = len(getattr(self, "_all_events", []))
    if not hasattr(self, "_all_events"):
      self._all_events = []
    for k, ev in enumerate(events):
      ev["i"] = base + k
    self._all_events.extend(events)
    nsh = shards or min(NCPU, max(1, len(events) // 200))
    if stateful:
      groups = {}
      for ev in events:
        groups.setdefault(ev.get("tr", 0), []).append(ev)
      keys = list(groups)
      buckets = [[] for _ in range(min(nsh, len(keys)))]
      for j, k in enumerate(keys):
        buckets[j % len(buckets)].extend(groups[k])
      ntraces = len(keys)
    else:
      buckets = [events[j::nsh] for j in range(nsh)]
      ntraces = len(events) if per_trace is None else per_trace
    buckets = [b for b in buckets if b]
    tdir = os.path.join(self.work, "traces")
    os.makedirs(tdir, exist_ok=True)
    stamp = "%s_%d" % (trace_module, len(self.model_runs) + len(self._all_events))

    def one(j):
      tf_ = os.path.join(tdir, "%s_%d.ndjson" % (stamp, j))
      bf = os.path.join(tdir, "%s_%d.bad.json" % (stamp, j))
      with open(tf_, "w") as f:
        for ev in buckets[j]:
          # "call" (how to re-execute) and "site" (finding class) are for the harness, not for TLC
          f.write(json.dumps({k: v for k, v in ev.items() if k not in ("call", "site", "exc")},
                             separators=(",", ":")) + "\n")
      e = {"TRACE_FILE": tf_, "BAD_FILE": bf}
      e.update(env or {})
      # a shard normally takes seconds; TLC was once seen spinning forever on a shard that passes in
      # 5 s when re-run, so every shard gets a bounded time and is retried before giving up
      # (the thorough tier re-evaluates the algorithm specs on every event and may share the machine with other runs)
      per_try = min(timeout, max(240, len(buckets[j]) // 5)) if self.quick else max(timeout, 900, len(buckets[j]))
      for attempt in range(3):
        if os.path.exists(bf):
          os.remove(bf)
        r = run_tlc(trace_module, cfg, env=e, workers=1, tag="%s_%d_%d" % (stamp, j, attempt),
                    timeout=per_try, heap="3g")
        if r.rc != 124:
          break
        log("  trace shard %d of %s timed out after %ds (attempt %d), retrying" % (j, trace_module, per_try, attempt + 1))
      if not os.path.exists(bf) or "TRACE-ACCEPTED" not in r.out:
        p = os.path.join(self.work, "tlc_trace_fail_%s_%d.out" % (trace_module, j))
        with open(p, "w") as f:
          f.write(r.out)
        tail = "\n".join(r.out.splitlines()[-25:])
        raise MachineryError("trace validation of %s shard %d did not run to the end (see %s)\n%s"
                             % (trace_module, j, p, tail))
      with open(bf) as f:
        bad = json.load(f)
      return r, bad

    t0 = time.time()
    with ThreadPoolExecutor(max_workers=NCPU) as ex:
      results = list(ex.map(one, range(len(buckets))))
    found = []
    byi = {ev["i"]: ev for ev in events}
    for r, bad in results:
      self.states += r.distinct
      self.transitions += r.generated
      for i, clause in bad:
        found.append((byi[i], clause))
    self.traces_validated += ntraces
    self.events_validated += len(events)
    nd = sum(1 for _, c in found if c.startswith("DRIFT"))
    log("  trace %-28s %9d events in %d shards: %d contract failures, %d drift  %.1fs"
        % (trace_module, len(events), len(buckets), len(found) - nd, nd, time.time() - t0))
    for ev, clause in found:
      (self.drift if clause.startswith("DRIFT") else self.bad).append((ev, clause))
    return found

  # ---- bookkeeping ----------------------------------------------------------------------------
  def count(self, n=1, nontrivial_key=None):
    self.evaluations += n
    if nontrivial_key is not None:
      self.nontrivial.add(nontrivial_key)

  def sample(self, s, limit=6):
    if len(self.samples) < limit:
      self.samples.append(s)

  def finish(self, site_of=None, level="model_checking"):
    """Matches failures against the known findings, prints verdict lines, writes evidence."""
    self.join_models()
    findings = load_findings()
    site_of = site_of or (lambda ev: ev.get("site", {}))
    known, viol = {}, []
    for ev, clause in self.bad:
      site = site_of(ev)
      hit = None
      for f in findings:
        if finding_matches(f, self.prop, clause, site):
          hit = f
          break
      if hit:
        known.setdefault(hit["id"], [hit, 0, ev, clause])
        known[hit["id"]][1] += 1
      else:
        viol.append((ev, clause))
    for fid, (f, n, ev, clause) in sorted(known.items()):
      log("KNOWN-FINDING: property=%s %s [%s] (%d failing events this run, clause %s)"
          % (self.prop, f["what"], fid, n, clause))
    for ev, clause in self.drift[:20]:
      log("DRIFT property=%s step=%s event=%s" % (self.prop, clause, _brief(ev)))
    if len(self.drift) > 20:
      log("DRIFT ... %d more" % (len(self.drift) - 20))
    rdir = os.path.join(OUT, "replay", self.prop + ("_replayed" if self.replay else ""))
    flt = getattr(self, "replay_filter", None)
    if flt is not None:
      # replay by re-execution: only the recorded clause / site class counts
      viol = [(ev, cl) for ev, cl in viol if cl == flt[0] and site_of(ev) == flt[1]]
      log("replay: %d events fail clause %s at site %s on this tree" % (len(viol), flt[0], json.dumps(flt[1], sort_keys=True)))
    seen = {}
    nviol = 0
    for ev, clause in viol:
      key = (clause, json.dumps(site_of(ev), sort_keys=True))
      seen.setdefault(key, []).append(ev)
    if viol:
      shutil.rmtree(rdir, ignore_errors=True)
      os.makedirs(rdir, exist_ok=True)
    for n, ((clause, _), evs) in enumerate(sorted(seen.items())):
      path = os.path.join(rdir, "%s_%02d_%s.json" % (self.prop, n, re.sub(r"\W+", "_", clause)))
      with open(path, "w") as f:
        json.dump({"property": self.prop, "clause": clause, "count": len(evs), "seed": int(self.seed), "tier": self.tier,
                   "site": site_of(evs[0]), "events": evs[:5]}, f, indent=1)
      log("VIOLATION property=%s replay=%s clause=%s count=%d example=%s"
          % (self.prop, path, clause, len(evs), _brief(evs[0])))
      nviol += 1
    cov = {
        "states": self.states, "transitions": self.transitions,
        "traces_validated_against_impl": self.traces_validated,
        "events_validated": self.events_validated,
        "evaluations": self.evaluations,
        "distinct_nontrivial": len(self.nontrivial),
        "rule": self.rule, "samples": self.samples[:8], "exhaustive": self.exhaustive,
        "model_runs": self.model_runs, "drift": [[_brief(e), c] for e, c in self.drift[:20]],
        "drift_count": len(self.drift),
        "known_findings_hit": {k: v[1] for k, v in known.items()},
        "vacuity": sorted(set(self.vacuity))[:40], "notes": self.notes,
    }
    cov.update(self.extra)
    evd = {"property_id": self.prop, "tier": self.tier, "seed": int(self.seed), "level": level,
           "coverage": cov, "assumptions": self.assumptions,
           "wall_s": round(time.time() - self.t0, 1), "violations": len(viol)}
    os.makedirs(EVID, exist_ok=True)
    if not self.replay:
      with open(os.path.join(EVID, self.prop + ".json"), "w") as f:
        json.dump(evd, f, indent=1, default=str)
    log("%s %s: %d states, %d transitions, %d events validated, %d evaluations, %d violations, "
        "%d known-finding events, %d drift, %.0fs"
        % (self.prop, self.tier, self.states, self.transitions, self.events_validated,
           self.evaluations, len(viol), sum(v[1] for v in known.values()), len(self.drift),
           time.time() - self.t0))
    shutil.rmtree(self.work, ignore_errors=True)
    return 1 if viol else 0


def rerun_replay(ctx, path, run_fn):
  """Replay for checks whose cases are regenerated from the seed: re-executes the whole run with the recorded seed and
  tier and reports (exit 1) iff the recorded clause fails again at the recorded site class."""
  with open(path) as f:
    rec = json.load(f)
  ctx.seed = int(rec.get("seed", ctx.seed))
  ctx.tier = rec.get("tier", ctx.tier)
  ctx.quick = ctx.tier == "quick"
  ctx.replay_filter = (rec["clause"], rec.get("site", {}))
  log("replay of %s: re-running ./check %s --tier %s with seed %d" % (os.path.basename(path), ctx.prop, ctx.tier, ctx.seed))
  return run_fn(ctx)


def _brief(ev, n=300):
  d = {k: v for k, v in ev.items() if k not in ("call",)}
  s = json.dumps(d, separators=(",", ":"), default=str)
  return s if len(s) <= n else s[:n] + "..."


def import_tf():
  os.environ.setdefault("TF_CPP_MIN_LOG_LEVEL", "3")
  os.environ.setdefault("CUDA_VISIBLE_DEVICES", "")
  os.environ["TENSORFLOW_LATTICE_VERIF"] = "1"
  if REPO not in sys.path:
    sys.path.insert(0, REPO)
  import tensorflow as tf  # noqa
  try:
    import absl.logging
    absl.logging.set_verbosity(absl.logging.ERROR)
  except Exception:  # pylint: disable=broad-except
    pass
  import tensorflow_lattice as tfl  # noqa
  p = os.path.realpath(tfl.__file__)
  if not p.startswith(os.path.realpath(REPO)):
    raise MachineryError("tensorflow_lattice imported from %s, not from %s" % (p, REPO))
  return tf, tfl
