"""C07 - KroneckerFactoredLattice after its constraints gives monotone, bounded outputs.

spec: KflOps.tla (evaluation, kernel/scale constraints with the (w, P) representation),
      KflLayer.tla (all interleavings of updates and constraint applications), MC_KflLayer.tla,
      TraceKfl.tla (stateful trace validation of real layer histories)
"""
import itertools
import json
from fractions import Fraction

import numpy as np

import common
from common import log
from latcfg import rat, frac

DEN, XDEN, ODEN = 2 ** 12, 16, 2 ** 14
ORDERS = [("kernel", "scale"), ("scale", "kernel"), ("finalize",)]


def make_layer(tfl, c, units):
  layer = tfl.layers.KroneckerFactoredLattice(
      lattice_sizes=c["L"], units=units, num_terms=c["terms"], monotonicities=list(c["mono"]),
      output_min=float(frac(c["omin"])) if c["hasMin"] else None,
      output_max=float(frac(c["omax"])) if c["hasMax"] else None, clip_inputs=c["clip"])
  import tensorflow as tf
  layer.build(tf.TensorShape((None, c["dims"]) if units == 1 else (None, units, c["dims"])))
  return layer


def to_var(c, W):
  """W: (units, L, dims, terms) -> kernel variable layout (1, L, units*dims, terms)."""
  u = W.shape[0]
  return np.transpose(W, (1, 0, 2, 3)).reshape(1, c["L"], u * c["dims"], c["terms"]).astype(np.float32)


def from_var(c, V, units):
  return np.transpose(V.reshape(c["L"], units, c["dims"], c["terms"]), (1, 0, 2, 3))


def apply(layer, what):
  if what == "kernel":
    if layer.kernel.constraint is not None:
      layer.kernel.assign(layer.kernel.constraint(layer.kernel))
  elif what == "scale":
    if layer.scale.constraint is not None:
      layer.scale.assign(layer.scale.constraint(layer.scale))
  else:
    layer.finalize_constraints()


def evaluate(tf, layer, c, units, X, as_list=False):
  """as_list: the other documented input form, a list of one tensor per dimension (last axis of size 1)."""
  Xu = X if units == 1 else np.repeat(X[:, None, :], units, axis=1)
  if as_list:
    inp = [tf.constant(Xu[..., d:d + 1], dtype=tf.float32) for d in range(Xu.shape[-1])]
  else:
    inp = tf.constant(Xu, dtype=tf.float32)
  out = layer(inp).numpy()
  return out.reshape(len(X), 1) if units == 1 else out


class Recorder:
  def __init__(self, ctx, c, units, tr0, X):
    self.ctx, self.c, self.units, self.tr0, self.X = ctx, c, units, tr0, X
    self.events = [[] for _ in range(units)]

  def mark(self, ev, **kw):
    for u in range(self.units):
      e = {"ev": ev, "tr": self.tr0 + u}
      e.update(kw)
      self.events[u].append(e)

  def eval(self, tf, layer, history):
    c, units = self.c, self.units
    W = from_var(c, layer.kernel.numpy(), units)
    S = layer.scale.numpy()
    Bv = layer.bias.numpy().reshape(-1)
    self.nevals = getattr(self, "nevals", 0) + 1
    out = evaluate(tf, layer, c, units, self.X, as_list=(self.tr0 + self.nevals) % 2 == 1)
    site = {"layer": "kfl", "bounds_without_monotonicity": (c["hasMin"] or c["hasMax"]) and not any(c["mono"])}
    for u in range(units):
      vals = list(W[u].reshape(-1)) + list(S[u]) + [Bv[u]]
      call = {"cfg": c, "history": history, "unit": u}
      if not common.all_finite(vals) or not common.all_finite(out[:, u]):
        self.events[u].append({"ev": "NonFinite", "tr": self.tr0 + u, "cfg": c, "site": site, "call": call})
        continue
      e = max(0, common.fx_scale(vals, bits=14, max_e=12))
      # magnitude bound for the fixed-point conformance evaluation in TraceKfl (see KflEvalFx)
      phimax = 1.0 if c["clip"] or c["L"] > 2 else 1.0 + float(np.abs(self.X).max())
      mags = np.abs(W[u]).sum(axis=0) * phimax            # (dims, terms)
      pmax = float(np.prod(np.maximum(mags, 1.0), axis=0).max())
      conf = pmax <= 6.0 and float(np.abs(S[u]).max()) <= 6.0 and float(np.abs(W[u]).max()) <= 6.0
      self.events[u].append({
          "ev": "Eval", "tr": self.tr0 + u, "cfg": c, "den": 2 ** e,
          "w": [common.fx(v, e) for v in W[u].reshape(-1)], "s": [common.fx(v, e) for v in S[u]],
          "b": common.fx(Bv[u], e), "xden": XDEN, "xs": [[int(round(float(v) * XDEN)) for v in x] for x in self.X],
          "oden": ODEN, "outs": [int(round(float(v) * ODEN)) for v in out[:, u]],
          "conf": bool(conf), "ctol": 24 + 8 * c["dims"] * c["L"],
          "tolu": max(8, int(ODEN * 2e-3 * max(1.0, float(np.abs(out[:, u]).max())))), "site": site, "call": call})
    self.ctx.count(units)

  def flat(self):
    return [e for u in range(self.units) for e in self.events[u]]


def run_history(tf, tfl, ctx, c, W0, S0, order1, upd2, order2, X, tr0):
  """One real layer, units = len(W0) stacked (kernel, scale) pairs; returns events (one trace per unit)."""
  units = W0.shape[0]
  layer = make_layer(tfl, c, units)
  rec = Recorder(ctx, c, units, tr0, X)
  history = {"order1": list(order1), "upd2": upd2[0] if upd2 else None, "order2": list(order2) if order2 else None}
  layer.kernel.assign(to_var(c, W0))
  layer.scale.assign(S0.astype(np.float32))
  rec.mark("Update", var="both")
  for what in order1:
    apply(layer, what)
    rec.mark("Finalize") if what == "finalize" else rec.mark("Constrain", var=what)
    rec.eval(tf, layer, history)           # half-way states are evaluated too (conformance; contract only when clean)
  if upd2:
    kind, val = upd2
    if kind == "scale":
      layer.scale.assign(val.astype(np.float32))
    else:
      layer.kernel.assign(to_var(c, val))
    rec.mark("Update", var=kind)
    rec.eval(tf, layer, history)
    for what in order2:
      apply(layer, what)
      rec.mark("Finalize") if what == "finalize" else rec.mark("Constrain", var=what)
    rec.eval(tf, layer, history)
  return rec.flat()


def run(ctx):
  tf, tfl = common.import_tf()
  ctx.rule = ("histories = every configuration of the TLC space x every (kernel, scale) of the small domains (stacked "
              "as units of one real layer) x the three orders of applying the constraints (kernel-scale, scale-kernel, "
              "finalize_constraints) x a second update of scale or kernel and again every order; each history is one "
              "trace per unit, validated statefully by TLC; plus random float histories (dims up to 5, terms up to 3); "
              "non-trivial = distinct (configuration, history)")
  ctx.model("MC_KflLayer", "Kfl_q.cfg")
  if not ctx.quick:
    for m in ("Kfl_t1.cfg", "Kfl_t2.cfg", "Kfl_t3.cfg"):
      ctx.model("MC_KflLayer", m, timeout=7200)
  ctx.model("MC_KflLayer", "Kfl_known.cfg", expect_violation="InvBounded",
            note="self-test: with the original guard (projection only when a monotonicity is configured) the bounds "
                 "contract fails at design level - the defect repaired by the fix: commit")
  ctx.exhaustive = True
  files = ctx.tlc_cases("GenKfl", "GenKfl.cfg", env={"VERIF_TIER": ctx.tier})
  rng = np.random.default_rng(ctx.seed + 707)
  events = []
  tr = 0
  for cf in files:
    xg = [float(frac(p)) for p in cf["xgrid"]]
    sv = [float(frac(p)) for p in cf["svals"]]
    for j, c in enumerate(cf["cfgs"]):
      nk = c["L"] * c["dims"] * c["terms"]
      kernels = np.array(list(itertools.product(cf["kvals"], repeat=nk)), dtype=np.float32)
      scales = np.array(list(itertools.product(sv, repeat=c["terms"])), dtype=np.float32)
      pairs = [(a, b) for a in range(len(kernels)) for b in range(len(scales))]
      rng.shuffle(pairs)
      pairs = pairs[:60 if ctx.quick else 400]
      W0 = np.stack([kernels[a].reshape(c["L"], c["dims"], c["terms"]) for a, _ in pairs])
      S0 = np.stack([scales[b] for _, b in pairs])
      X = np.array(list(itertools.product(xg, repeat=c["dims"])), dtype=np.float32)
      if len(X) > 30:
        X = X[rng.choice(len(X), size=30, replace=False)]
      for oi, order1 in enumerate(ORDERS):
        kind = "scale" if (j + oi) % 2 == 0 else "kernel"
        if kind == "scale":
          val = S0[rng.permutation(len(S0))] * np.float32(rng.choice([-1.0, 1.0]))
        else:
          val = W0[rng.permutation(len(W0))]
        order2 = ORDERS[(oi + j) % 3]
        try:
          evs = run_history(tf, tfl, ctx, c, W0, S0, order1, (kind, val), order2, X, tr)
          events += evs
          ctx.nontrivial.add((json.dumps(c, sort_keys=True), str(order1), kind, str(order2)))
        except Exception as ex:  # pylint: disable=broad-except
          events.append({"ev": "Raised", "tr": tr, "cfg": c, "site": {"layer": "kfl"}, "exc": repr(ex)[:300],
                         "call": {"cfg": c}})
        tr += len(pairs) + 1
  log("  %d events in %d enumerated traces" % (len(events), tr))
  ev_s = [e for e in events if e["ev"] == "Eval"]
  if ev_s:
    ctx.sample({k: ev_s[len(ev_s) // 2].get(k) for k in ("cfg", "w", "s", "b", "den", "xs", "outs", "oden")})
  # random float histories
  for j in range(20 if ctx.quick else 400):
    dims = int(rng.integers(1, 6))
    c = {"L": int(rng.integers(2, 5)), "dims": dims, "terms": int(rng.integers(1, 4)),
         "mono": [int(rng.random() < 0.5) for _ in range(dims)], "hasMin": bool(rng.random() < 0.5), "omin": rat(Fraction(int(rng.integers(-4, 2)), 2)),
         "hasMax": bool(rng.random() < 0.5), "omax": rat(Fraction(int(rng.integers(3, 8)), 2)), "clip": bool(rng.random() < 0.6)}
    units = int(rng.choice([1, 2, 3]))
    W0 = (rng.integers(-48, 49, size=(units, c["L"], dims, c["terms"])) / 16.0).astype(np.float32)
    S0 = (rng.integers(-48, 49, size=(units, c["terms"])) / 16.0).astype(np.float32)
    if rng.random() < 0.3:
      S0[:, 0] = 0.0
    X = (rng.integers(-8, 16 * c["L"] - 8 + 1, size=(6, dims)) / 16.0).astype(np.float32)
    X2 = X.copy()
    for r in range(len(X)):
      d = int(rng.integers(0, dims))
      X2[r, d] += float(rng.integers(1, 17)) / 16.0
    X = np.concatenate([X, X2])
    order1 = ORDERS[j % 3]
    kind = "scale" if j % 2 else "kernel"
    val = -S0 if kind == "scale" else W0[::-1].copy()
    try:
      events += run_history(tf, tfl, ctx, c, W0, S0, order1, (kind, val), ORDERS[(j + 1) % 3], X, tr)
      ctx.nontrivial.add((json.dumps(c, sort_keys=True), "random", j))
    except Exception as ex:  # pylint: disable=broad-except
      events.append({"ev": "Raised", "tr": tr, "cfg": c, "site": {"layer": "kfl"}, "exc": repr(ex)[:300], "call": {"cfg": c}})
    tr += units + 1
  ctx.validate("TraceKfl", events, stateful=True, shards=common.NCPU)
  return ctx.finish()


def replay(ctx, path):
  """The cases are regenerated from the seed recorded in the replay file: re-execute and compare."""
  return common.rerun_replay(ctx, path, run)
