"""C11 - Config and weight round-trips reproduce the same function.

spec: RoundTrip.tla (protocol + enumeration of every class x every single / pair of non-default arguments),
      MC_RoundTrip.tla (the schema), TraceRoundTrip.tla (real round trips judged by TLC)
The save / restore-during-training part of the property is checked with C03 (TrainingHistory).
"""
import json
import os
import warnings

import numpy as np

import common
from common import log

ODEN = 2 ** 12


def canon(x):
  """Config -> nested structure with string leaves (TLC compares it structurally; JSON null / {} avoided)."""
  import enum
  if isinstance(x, dict):
    return {str(k): canon(v) for k, v in sorted(x.items(), key=lambda kv: str(kv[0]))} if x else "{}"
  if isinstance(x, (list, tuple)):
    return [canon(v) for v in x] if len(x) else "[]"
  if isinstance(x, enum.Enum):
    return "enum:" + x.name
  if isinstance(x, (bool, np.bool_)):
    return "bool:%s" % bool(x)
  if isinstance(x, (int, np.integer)):
    return "num:%r" % float(x)
  if isinstance(x, (float, np.floating)):
    return "num:%r" % float(x)
  if x is None:
    return "None"
  if isinstance(x, str):
    return "str:" + x
  if hasattr(x, "numpy"):
    return canon(np.asarray(x.numpy()).tolist())
  if isinstance(x, np.ndarray):
    return canon(x.tolist())
  if hasattr(x, "get_config"):
    return {"class": type(x).__name__, "config": canon(x.get_config())}
  return "repr:" + repr(x)[:80]


def ints(a):
  a = np.asarray(a, dtype=np.float64).reshape(-1)
  a = np.where(np.isfinite(a), a, 12345.0)
  return [int(round(float(v) * ODEN)) for v in np.clip(a, -1e5, 1e5)]


def registry(tf, tfl):
  L = tfl.layers
  from tensorflow_lattice.python import (lattice_layer, pwl_calibration_layer, linear_layer, categorical_calibration_layer,
                                         kronecker_factored_lattice_layer as kfl)
  C = tfl.configs
  fcs = lambda: [C.FeatureConfig(name=n, pwl_calibration_input_keypoints=[0.0, 0.5, 1.0]) for n in ("a", "b", "c")]
  return {
      "Lattice": (L.Lattice, dict(lattice_sizes=[2, 3]), "layer", (None, 2)),
      "PWLCalibration": (L.PWLCalibration, dict(input_keypoints=[0.0, 1.0, 3.0]), "layer", (None, 1)),
      "PWLCalibrationImpute": (L.PWLCalibration, dict(input_keypoints=[0.0, 1.0, 3.0], impute_missing=True, missing_input_value=-7.0),
                               "layer", (None, 1)),
      "Linear": (L.Linear, dict(num_input_dims=3), "layer", (None, 3)),
      "CategoricalCalibration": (L.CategoricalCalibration, dict(num_buckets=3), "layer_int", (None, 1)),
      "KroneckerFactoredLattice": (L.KroneckerFactoredLattice, dict(lattice_sizes=2), "layer", (None, 2)),
      "CDF": (L.CDF, dict(num_keypoints=3), "layer", (None, 2)),
      "RTL": (L.RTL, dict(num_lattices=2, lattice_rank=2), "layer_rtl", None),
      "RTLKfl": (L.RTL, dict(num_lattices=2, lattice_rank=2, parameterization="kronecker_factored",
                              kernel_initializer="kfl_random_monotonic_initializer"), "layer_rtl", None),
      "LatticeConstraints": (lattice_layer.LatticeConstraints, dict(lattice_sizes=[2, 3]), "fn", (6, 1)),
      "LinearConstraints": (linear_layer.LinearConstraints, dict(monotonicities=[1, 1, 0]), "fn", (3, 1)),
      "PWLCalibrationConstraints": (pwl_calibration_layer.PWLCalibrationConstraints, dict(), "fn", (3, 1)),
      "CategoricalCalibrationConstraints": (categorical_calibration_layer.CategoricalCalibrationConstraints, dict(), "fn", (3, 1)),
      "NaiveBoundsConstraints": (pwl_calibration_layer.NaiveBoundsConstraints, dict(), "fn", (1, 2)),
      "ScaleConstraints": (kfl.ScaleConstraints, dict(), "fn", (2, 2)),
      "LinearInitializer": (lattice_layer.LinearInitializer, dict(lattice_sizes=[2, 3], monotonicities=[0, 0], output_min=0.0, output_max=1.0), "init", (6, 1)),
      "RandomMonotonicInitializer": (lattice_layer.RandomMonotonicInitializer, dict(lattice_sizes=[2, 3], output_min=0.0, output_max=1.0), "init_random", (6, 1)),
      "UniformOutputInitializer": (pwl_calibration_layer.UniformOutputInitializer, dict(output_min=0.0, output_max=1.0, monotonicity=0), "init", (3, 1)),
      "TorsionRegularizer": (lattice_layer.TorsionRegularizer, dict(lattice_sizes=[2, 3]), "fn", (6, 1)),
      "LatticeLaplacianRegularizer": (lattice_layer.LaplacianRegularizer, dict(lattice_sizes=[2, 3]), "fn", (6, 1)),
      "PwlLaplacianRegularizer": (pwl_calibration_layer.LaplacianRegularizer, dict(), "fn", (4, 1)),
      "HessianRegularizer": (pwl_calibration_layer.HessianRegularizer, dict(), "fn", (4, 1)),
      "WrinkleRegularizer": (pwl_calibration_layer.WrinkleRegularizer, dict(), "fn", (4, 1)),
      "KFLRandomMonotonicInitializer": (kfl.KFLRandomMonotonicInitializer, dict(monotonicities=[0, 0]), "init_kfl", (1, 2, 2, 1)),
      "ScaleInitializer": (kfl.ScaleInitializer, dict(output_min=None, output_max=None), "init", (2, 2)),
      "BiasInitializer": (kfl.BiasInitializer, dict(output_min=None, output_max=None), "init", (2,)),
      "FeatureConfig": (C.FeatureConfig, dict(name="f"), "config", None),
      "AggregateFunctionConfig": (lambda **kw: C.AggregateFunctionConfig(feature_configs=fcs(), **kw), dict(), "config", None),
      "CalibratedLatticeEnsembleRtlConfig": (lambda **kw: C.CalibratedLatticeEnsembleConfig(feature_configs=fcs(), **kw),
                                             dict(lattices="rtl_layer", num_lattices=3, lattice_rank=2), "model_config",
                                             tfl.premade.CalibratedLatticeEnsemble),
      "CalibratedLatticeConfig": (lambda **kw: C.CalibratedLatticeConfig(feature_configs=fcs(), **kw), dict(), "model_config", tfl.premade.CalibratedLattice),
      "CalibratedLinearConfig": (lambda **kw: C.CalibratedLinearConfig(feature_configs=fcs(), **kw), dict(), "model_config", tfl.premade.CalibratedLinear),
      "CalibratedLatticeEnsembleConfig": (lambda **kw: C.CalibratedLatticeEnsembleConfig(feature_configs=fcs(), **kw),
                                          dict(lattices=[["a", "b"], ["a", "c"]]), "model_config", tfl.premade.CalibratedLatticeEnsemble),
  }


def one_round_trip(tf, tfl, reg, cls, overrides, rng, save_formats=()):
  """Returns an event dict (status and canonical observations) or None when the constructor rejects the arguments."""
  ctor, base, kind, shape = reg[cls]
  kwargs = dict(base)
  import tf_keras
  env = {"tfl": tfl, "np": np, "tf_keras": tf_keras}
  for name, val in overrides:
    kwargs[name] = eval(val, env)          # the schema's values are Python literals  pylint: disable=eval-used
  custom = tfl.premade.get_custom_objects()
  ev = {"ev": "RoundTrip", "cls": cls, "status": "ok", "cfg1": "-", "cfg2": "-", "vars1": "-", "vars2": "-", "outs1": [], "outs2": [],
        "tolu": 4, "site": {"layer": "roundtrip", "cls": cls}, "call": {"cls": cls, "args": overrides}}
  try:
    obj = ctor(**kwargs)
    if kind.startswith("layer"):
      if kind == "layer_rtl":
        shape = {"increasing": (None, 2), "unconstrained": (None, 2)}
        obj.build(shape)
      elif cls == "Lattice" and kwargs.get("units", 1) > 1:
        obj.build((None, kwargs["units"], 2))
      elif cls == "Linear" and kwargs.get("units", 1) > 1:
        obj.build((None, kwargs["units"], 3))
      elif cls == "KroneckerFactoredLattice":
        u = kwargs.get("units", 1)
        obj.build(tf.TensorShape((None, 2) if u == 1 else (None, u, 2)))
      elif cls == "CDF":
        obj(tf.zeros((1, 2)))
      elif cls in ("PWLCalibration", "PWLCalibrationImpute", "CategoricalCalibration"):
        obj.build((None, kwargs.get("units", 1)))
      else:
        obj.build(shape)
    elif kind == "model_config":
      if getattr(obj, "lattices", None) == "random":
        from tensorflow_lattice.python import premade_lib
        premade_lib.set_random_lattice_ensemble(obj)
      model = shape(obj)
  except Exception:  # pylint: disable=broad-except
    return None                    # rejected at construction / build (C16's subject): not a round-trip case
  # the original object must be usable on the probe, otherwise there is no function to reproduce
  try:
    if kind.startswith("layer"):
      probe = _probe(tf, cls, kwargs, rng)
      obj(probe)
      # arbitrary weights instead of the initial ones (initial kernels are often flat or symmetric, which hides
      # differences in everything that only shapes the function: keypoints, clipping, routing)
      ws = obj.get_weights()
      obj.set_weights([(rng.integers(-32, 33, size=w.shape) / 16.0).astype(w.dtype) if w.dtype.kind == "f" else w for w in ws])
      obj(probe)
    elif kind == "fn":
      probe = tf.constant((rng.integers(-32, 33, size=shape) / 16.0).astype(np.float32))
      obj(probe)
  except Exception:  # pylint: disable=broad-except
    return None
  step = "get_config"
  try:
    import tf_keras
    if kind in ("model_config", "config"):
      # the documented way for the tfl.configs classes: from_config(config, custom_objects=...), with NO custom object
      # scope active (inside a scope a from_config that forgets to forward its custom_objects would go unnoticed)
      step = "from_config_explicit_custom_objects"
      o3 = type(obj).from_config(obj.get_config(), custom_objects=custom)
      if canon(o3.get_config()) != canon(obj.get_config()):
        raise ValueError("config rebuilt with explicit custom_objects differs")
      step = "get_config"
    with tf_keras.utils.custom_object_scope(custom):
      if kind == "model_config":
        cfg1 = obj.get_config()
        step = "from_config"
        obj2 = type(obj).from_config(cfg1, custom_objects=custom) if "custom_objects" in type(obj).from_config.__code__.co_varnames else type(obj).from_config(cfg1)
        step = "get_config2"
        cfg2 = obj2.get_config()
        step = "model_from_config"
        mcfg = model.get_config()
        model2 = type(model).from_config(mcfg, custom_objects=custom)
        model2.set_weights(model.get_weights())
        X = (rng.integers(0, 33, size=(5, 3)) / 32.0).astype(np.float32)
        inp = [tf.constant(X[:, i:i + 1]) for i in range(3)]
        ev["outs1"], ev["outs2"] = ints(model(inp)), ints(model2(inp))
        ev["vars1"] = canon([[v.name.split("/")[-1], list(v.shape)] for v in model.weights])
        ev["vars2"] = canon([[v.name.split("/")[-1], list(v.shape)] for v in model2.weights])
      else:
        cfg1 = obj.get_config()
        step = "from_config"
        obj2 = type(obj).from_config(cfg1)
        step = "get_config2"
        cfg2 = obj2.get_config()
        step = "use_rebuilt"
        if kind.startswith("layer"):
          if cls == "CDF":
            obj2(tf.zeros((1, 2)))
          elif kind == "layer_rtl":
            obj2.build({"increasing": (None, 2), "unconstrained": (None, 2)})
          else:
            obj2.build(obj.input_spec.shape if False else _shape_of(tf, cls, kwargs))
          x = probe
          obj2(x)                         # sub-layers (RTL) create their variables on the first call
          obj2.set_weights(obj.get_weights())
          ev["vars1"] = canon([[v.name.split("/")[-1], list(v.shape)] for v in obj.weights])
          ev["vars2"] = canon([[v.name.split("/")[-1], list(v.shape)] for v in obj2.weights])
          y1, y2 = obj(x), obj2(x)
          flat = lambda y: np.concatenate([np.asarray(t).reshape(-1) for t in (y.values() if isinstance(y, dict) else (y if isinstance(y, list) else [y]))])
          ev["outs1"], ev["outs2"] = ints(flat(y1)), ints(flat(y2))
          if kind == "layer_rtl":
            ev["vars1"] = canon([ev["vars1"], [[list(m), [list(map(int, l)) for l in ls]] for m, ls in obj._rtl_structure]])
            ev["vars2"] = canon([ev["vars2"], [[list(m), [list(map(int, l)) for l in ls]] for m, ls in obj2._rtl_structure]])
          if save_formats and kind != "layer_rtl":
            # SaveModel / LoadModel: the layer inside a functional model, written to disk and read back
            ev["outs3"] = {}
            for fmt in save_formats:
              step = "save_model_" + fmt
              ev["outs3"][fmt] = ints(flat(_save_load(tf, tf_keras, cls, kwargs, ctor, obj, x, fmt, custom)))
        elif kind == "fn":
          ev["outs1"], ev["outs2"] = ints(obj(probe)), ints(obj2(probe))
        elif kind == "init":
          ev["outs1"], ev["outs2"] = ints(obj(shape, dtype=tf.float32)), ints(obj2(shape, dtype=tf.float32))
        elif kind == "init_random":
          np.random.seed(3); tf.random.set_seed(3); a = obj(shape, dtype=tf.float32)
          np.random.seed(3); tf.random.set_seed(3); b = obj2(shape, dtype=tf.float32)
          ev["outs1"], ev["outs2"] = ints(a), ints(b)
        elif kind == "init_kfl":
          sc = tf.ones((1, 1))
          tf.random.set_seed(3); a = obj(shape, scale=sc, dtype=tf.float32)
          tf.random.set_seed(3); b = obj2(shape, scale=sc, dtype=tf.float32)
          ev["outs1"], ev["outs2"] = ints(a), ints(b)
      ev["cfg1"], ev["cfg2"] = canon(cfg1), canon(cfg2)
  except Exception as ex:  # pylint: disable=broad-except
    ev["status"] = "%s:%s" % (step, type(ex).__name__)
    ev["exc"] = repr(ex)[:200]
  return ev


def _save_load(tf, tf_keras, cls, kwargs, ctor, obj, x, fmt, custom):
  """A fresh layer of the same arguments inside a functional model with the original weights, saved in format fmt and
  loaded back with the tfl custom objects; returns the reloaded model's output on the probe."""
  import shutil
  import tempfile
  lay = ctor(**kwargs)
  inp = tf_keras.Input(shape=tuple(x.shape[1:]), dtype=x.dtype)
  model = tf_keras.Model(inp, lay(inp))
  lay.set_weights(obj.get_weights())
  d = tempfile.mkdtemp(prefix="c11_")
  try:
    path = os.path.join(d, "m.keras" if fmt == "keras" else "m.h5")
    with warnings.catch_warnings():
      warnings.simplefilter("ignore")
      model.save(path)
    m2 = tf_keras.models.load_model(path, custom_objects=custom)
    return m2(x)
  finally:
    shutil.rmtree(d, ignore_errors=True)


def _shape_of(tf, cls, kw):
  u = kw.get("units", 1)
  if cls == "Lattice":
    return (None, 2) if u == 1 else (None, u, 2)
  if cls == "Linear":
    return (None, 3) if u == 1 else (None, u, 3)
  if cls == "KroneckerFactoredLattice":
    return tf.TensorShape((None, 2) if u == 1 else (None, u, 2))
  return (None, u)


def _probe(tf, cls, kw, rng):
  u = kw.get("units", 1)
  if cls in ("RTL", "RTLKfl"):
    # rows inside and outside the lattice range (clipping is part of the function)
    return {"increasing": tf.constant((rng.integers(-48, 113, size=(6, 2)) / 32.0).astype(np.float32)),
            "unconstrained": tf.constant((rng.integers(-48, 113, size=(6, 2)) / 32.0).astype(np.float32))}
  if cls == "CategoricalCalibration":
    return tf.constant(rng.integers(0, 3, size=(4, u)).astype(np.int32))
  if cls in ("PWLCalibration", "PWLCalibrationImpute"):
    # points below, inside and above the keypoint range, whatever its location and scale
    kp = np.asarray(kw.get("input_keypoints", [0.0, 1.0, 3.0]), dtype=np.float64)
    span = float(kp[-1] - kp[0])
    x = (float(kp[0]) + span * (rng.integers(-16, 80, size=(6, u)) / 48.0)).astype(np.float32)
    x[0, 0] = -7.0
    return tf.constant(x)
  if cls == "CDF":
    return tf.constant((rng.integers(0, 33, size=(4, 2)) / 32.0).astype(np.float32))
  n = {"Lattice": 2, "Linear": 3, "KroneckerFactoredLattice": 2}[cls]
  shape = (6, n) if u == 1 else (6, u, n)
  return tf.constant((rng.integers(-32, 97, size=shape) / 32.0).astype(np.float32))       # inside and outside [0, 1]


def run(ctx):
  tf, tfl = common.import_tf()
  ctx.rule = ("cases = for each of the 28 schema classes (layers, constraints, initializers, regularizers, configs incl. the "
              "premade model configs with their models) every assignment with at most two non-default constructor "
              "arguments (all singles and all pairs; generated by TLC from the schema); arguments the constructor rejects "
              "are skipped; each case: get_config -> from_config (tfl custom objects) -> get_config, set_weights, probe "
              "outputs; non-trivial = accepted cases")
  ctx.exhaustive = True
  cases = ctx.tlc_cases("MC_RoundTrip", "RoundTrip.cfg")
  ctx.states += len(cases)
  ctx.transitions += 3 * len(cases)
  reg = registry(tf, tfl)
  rng = np.random.default_rng(ctx.seed + 1111)
  arr = lambda c: False
  if ctx.quick:
    # all singles, and every third pair (seeded rotation)
    # (array-valued arguments are always kept: an array travels into nested configs, e.g. of the initializer)
    arr = lambda c: any("np." in str(a[1]) for a in c["args"])
    cases = [c for j, c in enumerate(cases) if len(c["args"]) <= 1 or (j + ctx.seed) % 3 == 0 or arr(c)]
  events, rejected = [], 0
  for c in cases:
    # the save / load steps of the protocol are run for every single-argument case (thorough: for the pairs as well)
    fmts = ("keras", "h5") if (len(c["args"]) <= 1 or not ctx.quick or arr(c)) else ()
    ev = one_round_trip(tf, tfl, reg, c["cls"], [tuple(a) for a in c["args"]], rng, save_formats=fmts)
    if ev is None:
      rejected += 1
      continue
    events.append(ev)
    ctx.count(1, nontrivial_key=(c["cls"], json.dumps(c["args"])))
  ctx.extra["rejected_at_construction"] = rejected
  log("  %d round trips (%d argument combinations rejected by the constructors)" % (len(events), rejected))
  ctx.sample({k: events[len(events) // 2].get(k) for k in ("cls", "status", "cfg1", "outs1", "outs2")})
  events += cross_process_events(tf, tfl, ctx, rng)
  ctx.validate("TraceRoundTrip", events)
  return ctx.finish()


def cross_process_events(tf, tfl, ctx, rng):
  """Config + weights written by this interpreter, model rebuilt from them by interpreters with other string-hash
  seeds (harness/c11_child.py): seed-derived structure (random ensembles, RTL) is part of what the config denotes."""
  import os
  import shutil
  import subprocess
  import sys
  import tempfile
  import c11_child
  os.makedirs(common.WORK, exist_ok=True)
  wd = tempfile.mkdtemp(prefix="c11x_", dir=common.WORK)
  jobs, mine = [], {}
  try:
    shapes = [(8, 4, 3, "random", False), (6, 5, 2, "random", True), (5, 3, 3, "rtl_layer", False)]
    if not ctx.quick:
      shapes += [(9, 5, 3, "random", True), (7, 6, 2, "random", False), (4, 3, 3, "random", False), (6, 4, 3, "rtl_layer", True)]
    for n, (nf, nl, rank, kind, sep) in enumerate(shapes):
      names = ["feature_%s" % "abcdefghij"[i] for i in range(nf)]
      fcs = [tfl.configs.FeatureConfig(name=nm, lattice_size=2, monotonicity="increasing" if i % 2 == 0 else "none",
                                       pwl_calibration_input_keypoints=[0.0, 0.25 + 0.05 * i, 1.0]) for i, nm in enumerate(names)]
      cfg = tfl.configs.CalibratedLatticeEnsembleConfig(feature_configs=fcs, lattices=kind, num_lattices=nl, lattice_rank=rank,
                                                        separate_calibrators=sep, output_initialization=[0.0, 1.0],
                                                        random_seed=int(ctx.seed) + 7 + n)
      cj = json.loads(json.dumps(cfg.get_config()))
      _, lat, model = c11_child.rebuild(tfl, cj)
      for layer in model.layers:      # distinct vertex values everywhere
        if isinstance(layer, (tfl.layers.Lattice, tfl.layers.RTL)):
          layer.set_weights([rng.uniform(0.0, 1.0, size=w.shape).astype(np.float32) for w in layer.get_weights()])
      wname = "w%d.h5" % n
      model.save_weights(os.path.join(wd, wname))
      y = model.predict(c11_child.probe(np, nf), verbose=0)
      jobs.append({"id": n, "config": cj, "weights": wname, "nf": nf})
      mine[n] = (lat, ints(np.ravel(y)), {"nf": nf, "nl": nl, "rank": rank, "lattices": kind, "sep": sep})
    with open(os.path.join(wd, "jobs.json"), "w") as f:
      json.dump(jobs, f)
    evs = []
    for hs in (1, 2) if ctx.quick else (1, 2, 3, 4):
      p = subprocess.run([sys.executable, os.path.join(os.path.dirname(os.path.abspath(__file__)), "c11_child.py"), wd],
                         stdout=subprocess.PIPE, stderr=subprocess.DEVNULL, text=True, env=dict(os.environ, PYTHONHASHSEED=str(hs)),
                         timeout=1800)
      res = None
      for line in p.stdout.splitlines():
        if line.startswith("C11CHILD "):
          res = json.loads(line[len("C11CHILD "):])
      if res is None:
        raise common.MachineryError("C11 child interpreter produced no result (rc=%s)" % p.returncode)
      for r in res:
        lat, outs, call = mine[r["id"]]
        cls = "CalibratedLatticeEnsembleConfig/other-process"
        ev = {"ev": "RoundTrip", "cls": cls, "status": "ok", "cfg1": json.dumps(lat), "cfg2": "-", "vars1": "-", "vars2": "-",
              "outs1": outs, "outs2": [], "tolu": 4, "site": {"layer": "roundtrip", "cls": cls},
              "call": dict(call, hashseed=hs, kind="cross_process")}
        if "raised" in r:
          ev["status"] = "rebuild_in_other_process:" + r["raised"].split(":")[0]
          ev["exc"] = r["raised"]
        else:
          ev["cfg2"] = json.dumps(r["lattices"])
          ev["outs2"] = ints(np.asarray(r["outs"]))
        evs.append(ev)
        ctx.count(1, nontrivial_key=("xproc", r["id"], hs))
    return evs
  finally:
    shutil.rmtree(wd, ignore_errors=True)


def replay(ctx, path):
  tf, tfl = common.import_tf()
  reg = registry(tf, tfl)
  rng = np.random.default_rng(1)
  with open(path) as f:
    rec = json.load(f)
  events = []
  if any(ev["call"].get("kind") == "cross_process" for ev in rec["events"]):
    for e2 in cross_process_events(tf, tfl, ctx, rng):
      log("replay other-process rebuild %s -> %s %s / %s" % (e2["call"], e2["status"], e2["cfg1"], e2["cfg2"]))
      events.append(e2)
    rec["events"] = []
  for ev in rec["events"]:
    c = ev["call"]
    e2 = one_round_trip(tf, tfl, reg, c["cls"], [tuple(a) for a in c["args"]], rng, save_formats=("keras", "h5"))
    log("replay %s %s -> %s %s" % (c["cls"], c["args"], e2 and e2["status"], e2 and e2.get("exc")))
    if e2:
      events.append(e2)
  ctx.validate("TraceRoundTrip", events, shards=1)
  return ctx.finish()
