"""Lattice configuration records shared by C01/C08/C09/C10/C12.

A configuration is the JSON form of the TLA+ record of LatticeOps.tla (dimensions 1-based):
  sizes, mono, uni, edge/trap [[main,cond,dir]], mdom/rdom/jmono [[a,b]], juni [[[dims],"valley"|"peak"]],
  hasMin, omin [n,d], hasMax, omax [n,d], iters, strict
"""
import itertools
from fractions import Fraction

import numpy as np

import common


def rat(x):
  f = Fraction(x)
  return [f.numerator, f.denominator]


def frac(p):
  return Fraction(p[0], p[1])


def base(sizes):
  n = len(sizes)
  return {"sizes": list(sizes), "mono": [0] * n, "uni": [0] * n, "edge": [], "trap": [], "mdom": [], "rdom": [],
          "jmono": [], "juni": [], "hasMin": False, "omin": [0, 1], "hasMax": False, "omax": [1, 1], "iters": 1,
          "strict": True}


def kwargs_of(c):
  """Keyword arguments of LatticeConstraints / Lattice for configuration c (0-based dims)."""
  z = lambda ts: [tuple([t[0] - 1, t[1] - 1] + list(t[2:])) for t in ts] or None
  return dict(
      lattice_sizes=list(c["sizes"]),
      monotonicities=list(c["mono"]),
      unimodalities=list(c["uni"]),
      edgeworth_trusts=z(c["edge"]),
      trapezoid_trusts=z(c["trap"]),
      monotonic_dominances=z(c["mdom"]),
      range_dominances=z(c["rdom"]),
      joint_monotonicities=z(c["jmono"]),
      joint_unimodalities=[(tuple(d - 1 for d in u[0]), u[1]) for u in c["juni"]] or None,
      output_min=float(frac(c["omin"])) if c["hasMin"] else None,
      output_max=float(frac(c["omax"])) if c["hasMax"] else None)


class Rejected(Exception):
  """The library rejected the configuration with a ValueError at construction/build time."""


def make_constraint(tfl, c):
  try:
    return _make_constraint(tfl, c)
  except ValueError as ex:
    raise Rejected(str(ex))


def _make_constraint(tfl, c):
  from tensorflow_lattice.python import lattice_layer
  return lattice_layer.LatticeConstraints(
      num_projection_iterations=c["iters"], enforce_strict_monotonicity=c["strict"], **kwargs_of(c))


def run_constraint(tf, tfl, c, K):
  return make_constraint(tfl, c)(tf.constant(K, dtype=tf.float32)).numpy()


def run_finalize_lib(tf, c, K):
  from tensorflow_lattice.python import lattice_lib
  kw = kwargs_of(c)
  return lattice_lib.finalize_constraints(
      tf.constant(K, dtype=tf.float32), lattice_sizes=kw["lattice_sizes"], monotonicities=kw["monotonicities"],
      edgeworth_trusts=kw["edgeworth_trusts"], trapezoid_trusts=kw["trapezoid_trusts"],
      output_min=kw["output_min"], output_max=kw["output_max"]).numpy()


def make_layer(tfl, c, units, **extra):
  try:
    return _make_layer(tfl, c, units, **extra)
  except ValueError as ex:
    raise Rejected(str(ex))


def _make_layer(tfl, c, units, **extra):
  kw = kwargs_of(c)
  kw.update(extra)
  layer = tfl.layers.Lattice(units=units, num_projection_iterations=c["iters"],
                             monotonic_at_every_step=c["strict"], **kw)
  if units == 1:
    layer.build((None, len(c["sizes"])))
  else:
    layer.build((None, units, len(c["sizes"])))
  return layer


# The kernel is assigned right after construction, so these layers are built with a plain Keras initializer: the
# default lattice initializers reject a one-sided output_max <= 0 (their default range would be empty).
def run_layer_finalize(tf, tfl, c, K):
  layer = make_layer(tfl, c, K.shape[1], kernel_initializer="zeros")
  layer.kernel.assign(K.astype(np.float32))
  layer.finalize_constraints()
  return layer.kernel.numpy()


def run_layer_constraint(tf, tfl, c, K):
  layer = make_layer(tfl, c, K.shape[1], kernel_initializer="zeros")
  layer.kernel.assign(K.astype(np.float32))
  layer.kernel.assign(layer.kernel.constraint(layer.kernel))
  return layer.kernel.numpy()


def grid_kernels(vals, nv):
  return np.array(list(itertools.product(vals, repeat=nv)), dtype=np.float32).T


def site(c, ev):
  """Coarse call-site class of a lattice event (to tell listed findings from new violations)."""
  trap_cond_mono = bool(c["edge"]) and any(c["mono"][t[1] - 1] == 1 for t in c["trap"])
  return {"layer": "lattice", "ev": ev, "edgeworth_with_trapezoid_on_monotone_conditional": trap_cond_mono}


def events_for(c, K, out, ev, exact, ctx, tolu=32, call_path=None, nontrivial=True):
  evs = []
  s = site(c, ev)
  for u in range(K.shape[1]):
    col0, col = K[:, u], out[:, u]
    call = {"path": call_path or ev, "cfg": c, "w0": [float(v) for v in col0]}
    if not common.all_finite(col):
      evs.append({"ev": "NonFinite", "cfg": c, "site": s, "call": call, "out": [str(v) for v in col]})
      continue
    e = max(0, common.fx_scale(list(col0) + list(col), bits=21))
    evs.append({"ev": ev, "cfg": c, "den": 2 ** e, "tolu": tolu, "w0": [common.fx(v, e) for v in col0],
                "w": [common.fx(v, e) for v in col], "exact": bool(exact), "site": s, "call": call})
    ctx.count(1, nontrivial_key=(str(c), tuple(col0), ev)
              if (nontrivial and not np.allclose(col0, col, atol=1e-7)) else None)
  return evs


def raised_event(c, ev, ex):
  return {"ev": "Raised", "cfg": c, "site": site(c, ev), "exc": repr(ex)[:300], "call": {"path": ev, "cfg": c}}


# ---------------------------------------------------------------------------------------------
# random valid configurations
# ---------------------------------------------------------------------------------------------
def random_cfg(rng, max_rank=4, max_size=4, max_vertices=81, families=True):
  while True:
    rank = int(rng.integers(1, max_rank + 1))
    sizes = [int(rng.integers(2, max_size + 1)) for _ in range(rank)]
    if int(np.prod(sizes)) <= max_vertices:
      break
  c = base(sizes)
  for d in range(rank):
    r = rng.random()
    if r < 0.55:
      c["mono"][d] = 1
    elif r < 0.7 and families and sizes[d] >= 3:
      c["uni"][d] = int(rng.choice([-1, 1]))
  mono_dims = [d + 1 for d in range(rank) if c["mono"][d] == 1]
  # trusts: a conditional feature may not be the main feature of another trust
  mains, conds, pair_dir = set(), set(), {}
  for kind in ("edge", "trap"):
    for _ in range(int(rng.integers(0, 3))):
      if not mono_dims or rank < 2:
        break
      m = int(rng.choice(mono_dims))
      cd = int(rng.choice([d for d in range(1, rank + 1) if d != m]))
      if cd in mains or m in conds:
        continue
      if any(t[0] == m and t[1] == cd for t in c[kind]):
        continue
      mains.add(m)
      conds.add(cd)
      pair_dir.setdefault((m, cd), int(rng.choice([-1, 1])))   # one direction per (main, cond) pair
      c[kind].append([m, cd, pair_dir[(m, cd)]])
  if families and len(mono_dims) >= 2:
    if rng.random() < 0.3:
      a, b = rng.choice(mono_dims, size=2, replace=False)
      c["mdom"].append([int(a), int(b)])
    if rng.random() < 0.3:
      a, b = rng.choice(mono_dims, size=2, replace=False)
      c["rdom"].append([int(a), int(b)])
  if families and rank >= 2 and rng.random() < 0.3:
    a, b = rng.choice(range(1, rank + 1), size=2, replace=False)
    c["jmono"].append([int(a), int(b)])
  if families and rng.random() < 0.25:
    free = [d + 1 for d in range(rank) if c["mono"][d] == 0 and c["uni"][d] == 0 and sizes[d] >= 3]
    if free:
      n = int(rng.integers(1, min(2, len(free)) + 1))
      dims = sorted(int(x) for x in rng.choice(free, size=n, replace=False))
      c["juni"].append([dims, str(rng.choice(["valley", "peak"]))])
  b = rng.random()
  lo = Fraction(int(rng.integers(-8, 8)), 4)
  hi = lo + Fraction(int(rng.integers(1, 24)), 4)
  if b < 0.35:
    c["hasMin"], c["hasMax"] = True, True
  elif b < 0.5:
    c["hasMin"] = True
    if b < 0.43:        # a one-sided bound of exactly zero (a falsy number) half of the time
      lo = Fraction(0)
  elif b < 0.65:
    c["hasMax"] = True
    if b < 0.58:
      hi = Fraction(0)
  c["omin"], c["omax"] = rat(lo), rat(hi)
  c["iters"] = int(rng.choice([0, 1, 1, 2, 3, 10, 10]))
  c["strict"] = bool(rng.random() < 0.8)
  return c


def random_kernels(rng, c, units):
  """Columns of dyadic kernels of several flavours (tied, sorted, anti-sorted, tiny, huge, uniform)."""
  nv = int(np.prod(c["sizes"]))
  lo, hi = float(frac(c["omin"])), float(frac(c["omax"]))
  cols = []
  for _ in range(units):
    kind = int(rng.integers(0, 8))
    if kind == 0:
      col = rng.integers(-64, 65, size=nv) / 16.0
    elif kind == 1:
      col = rng.choice([0.0, 0.0, 1.0, -1.0, 0.5], size=nv)
    elif kind == 2:     # sorted along the flat index (monotone in every dimension)
      col = np.sort(rng.integers(-32, 33, size=nv)) / 8.0
    elif kind == 3:     # anti-sorted
      col = -np.sort(rng.integers(-32, 33, size=nv)) / 8.0
    elif kind == 4:
      col = rng.integers(-64, 65, size=nv) / float(2 ** 18)
    elif kind == 5:
      col = rng.integers(-64, 65, size=nv) * 4096.0
    elif kind == 6:     # inside the bounds, additive (sum of per-dimension ramps): feasible for most families
      ramps = [np.sort(rng.integers(0, 9, size=s)) for s in c["sizes"]]
      col = np.zeros(c["sizes"])
      for d, r in enumerate(ramps):
        shape = [1] * len(c["sizes"])
        shape[d] = c["sizes"][d]
        col = col + r.reshape(shape) * (1.0 if c["uni"][d] == 0 else 0.0)
      col = col.reshape(-1)
      m = col.max() if col.max() > 0 else 1.0
      col = lo + col * (2.0 ** np.floor(np.log2(max(hi - lo, 0.25) / m)))
    else:               # far outside the bounds
      col = rng.integers(-64, 65, size=nv) / 4.0 + float(rng.choice([-500.0, 750.0]))
    cols.append(np.asarray(col, dtype=np.float64))
  return np.stack(cols, axis=1).astype(np.float32)
