"""Child process of the C17 check: recomputes random ensembles and pair covers under another PYTHONHASHSEED.

stdin: JSON list of jobs {"kind": "random"|"cover", "nf", "nl", "rank", "seed"}; stdout: JSON list of lattices (feature
numbers).  The arrangement must be a function of the seed alone - not of the interpreter's string hashing."""
import json
import os
import sys

os.environ.setdefault("TF_CPP_MIN_LOG_LEVEL", "3")
os.environ.setdefault("CUDA_VISIBLE_DEVICES", "")


def main():
  import tensorflow_lattice as tfl
  from tensorflow_lattice.python import premade_lib
  jobs = json.load(sys.stdin)
  out = []
  for j in jobs:
    names = ["f%d" % i for i in range(j["nf"])]
    fcs = [tfl.configs.FeatureConfig(name=n, pwl_calibration_input_keypoints=[0.0, 1.0]) for n in names]
    mc = tfl.configs.CalibratedLatticeEnsembleConfig(
        feature_configs=fcs, lattices="random" if j["kind"] == "random" else "crystals", num_lattices=j["nl"],
        lattice_rank=j["rank"], random_seed=j["seed"], output_initialization=[0.0, 1.0])
    try:
      if j["kind"] == "random":
        premade_lib.set_random_lattice_ensemble(mc, names)
      else:
        premade_lib._set_all_pairs_cover_lattices(mc, names)
      out.append([[names.index(f) + 1 for f in lat] for lat in mc.lattices])
    except Exception as ex:  # pylint: disable=broad-except
      out.append({"raised": repr(ex)[:200]})
  sys.stdout.write("C17CHILD " + json.dumps(out) + "\n")


if __name__ == "__main__":
  main()
