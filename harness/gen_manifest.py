"""Writes /verif/MANIFEST.json from the table below (kept next to the harness so it cannot rot)."""
import json
import os

VERIF = os.path.dirname(os.path.dirname(os.path.abspath(__file__)))
BASE = ("cd /repo && env -u TENSORFLOW_LATTICE_VERIF /venv/bin/python -m pytest -ra -q -p no:cacheprovider "
        "--timeout=900 --continue-on-collection-errors")

ALL = ["C%02d" % i for i in range(1, 21)]

# id -> (technique, level text, level note, design ref)
CLAIMED = {
    "C01": (
        "TLA+ algorithm model of LatticeConstraints (all Dykstra groups, finalize passes, clip) checked exhaustively "
        "by TLC; TLC-enumerated cases replayed on the real constraint; recorded results validated by TLC against "
        "the contracts and the algorithm spec",
        "TLC explores every valid configuration of the lattice configuration spaces (2x2, 3x2, 2x3, 2x2x2, 3x3; "
        "monotonicity x Edgeworth x trapezoid trusts of either direction x bounds x 0..2 sweeps x strict/non-strict, "
        "with unimodality, dominances, joint monotonicity/unimodality alongside) on every kernel of a small integer "
        "domain, one action per Dykstra group / finalize pass, and checks the C01 contracts as invariants and the "
        "'does not violate earlier constraints' claims as action properties; the same cases and random valid "
        "configurations (ranks 1-4) run through LatticeConstraints, lattice_lib.finalize_constraints and "
        "Lattice.finalize_constraints(); TLC validates the recorded kernels (TraceLattice).",
        "Exact rational model up to 2 Dykstra sweeps; float32 tolerance 32 units of 2^-21 relative to the largest "
        "value; 20-sweep Lattice.finalize_constraints() only contract-checked; one listed known finding exempted by "
        "configuration class; beyond the enumerated constants the evidence is sampling.",
        "DESIGN.md section 3 (C01)"),
    "C02": (
        "TLA+ definitions of hypercube and simplex interpolation with their properties model-checked by TLC; real "
        "Lattice layer outputs validated by TLC against the definitions",
        "TLC checks on every (shape, 0/1 kernel, grid point) of the model that both schemes reproduce vertex values, are "
        "convex combinations (weights >= 0 summing to 1, output within [min, max] kernel), agree on vertices and "
        "axis-parallel edges, are single-valued on shared cell faces and independent of residual tie order, and - as "
        "action properties across every grid step - inherit monotonicity from the kernel (both schemes) and "
        "Edgeworth trust (hypercube). Every enumerated (shape, basis/dense kernel, point) and random shapes up to "
        "rank 9 go through tfl.layers.Lattice (both schemes, tensor/list inputs, extra batch dimension, clip on/off, "
        "units 1 and >1); TLC recomputes the interpolation exactly for each recorded event.",
        "Inputs on dyadic grids (coarser for high rank so the exact value fits 32-bit rationals); outputs compared "
        "within 6/2^14; rank > 9 not covered.",
        "DESIGN.md section 3 (C02)"),
    "C07": (
        "TLA+ state machine of all interleavings of kernel/scale updates and constraint applications checked by TLC; "
        "real layer histories validated statefully by TLC",
        "TLC explores every interleaving of UpdateKernel / UpdateScale / ConstrainKernel / ConstrainScale (two update "
        "rounds) over all small kernels, scales of every sign pattern (including 0), monotonicity subsets, bound modes "
        "and clip_inputs, with an exact rational evaluation of the layer ((w, P) representation of the dims-th root), "
        "and checks that whenever both constraints have been applied since the last update the output is bounded and "
        "monotone on the whole grid, and that the constraints are idempotent. Real layers (kernels/scales stacked as "
        "units) are driven through the same histories in all three orders (kernel-scale, scale-kernel, "
        "finalize_constraints); TLC validates each per-unit trace: clean/dirty bookkeeping, conformance of the layer "
        "output with the spec's evaluation (fixed point), boundedness and monotonicity of real outputs.",
        "Conformance evaluation in 12-bit fixed point (tolerance ~1e-2) for bounded magnitudes only; monotonicity / "
        "bounds checked on the recorded grid points; the repaired defect is listed as fixed.",
        "DESIGN.md section 3 (C07)"),
    "C05": (
        "TLA+ definitions of the PWL / categorical calibration functions with their properties model-checked by TLC; "
        "real layer outputs validated by TLC against the definitions",
        "TLC checks for every keypoint vector, integer kernel (cyclic or not) and grid point of the model that the PWL "
        "function passes through (keypoint_i, cumulative sum_i), is linear on each segment, constant outside, equal at "
        "both ends when cyclic, stays within the hull of the keypoint outputs, and - across every grid step - inherits "
        "monotonicity from the heights. Real PWLCalibration layers (single-column and per-unit inputs, split_outputs, "
        "cyclic, missing_input_value with learned/fixed output, is_missing tensor), keypoints_inputs()/outputs() and "
        "CategoricalCalibration (every index, default values) are recorded; TLC recomputes each value exactly. "
        "Learned interior keypoints: ordered, end points fixed, function passes through separated reported points.",
        "Keypoints that coincide in float32 (softmax underflow / below resolution) are recorded as the documented "
        "floating-point limit, not as violations.",
        "DESIGN.md section 3 (C05)"),
    "C09": (
        "TLA+ model of multi-unit / batched operations as the pointwise lift of an uninterpreted per-unit function; "
        "differential trace validation by TLC (Multi events must agree with the memo of Single events)",
        "The model states column-wise equality, permutation equivariance and stability under sub-selection for the "
        "lift of any function (TLC, all functions over a small domain). On the real code every subject - the five "
        "weight constraints (incl. lattice finalize with trusts and bounds, where reductions over 'all axes but the "
        "last' could couple units), the five layers' outputs per unit and per example, CDF, cdf_fn, pwl_calibration_fn "
        "and a premade model per example - is observed column by column / example by example (Single) and then in "
        "ordered pairs, triples, permutations and sub-selections (Multi); TLC validates each trace statefully: every "
        "Multi entry must equal the remembered Single observation, repeated observations must be consistent.",
        "Differential between real observations only (no model of the functions), so it cannot raise a false alarm "
        "through model error; subjects and kernels are seeded samples.",
        "DESIGN.md section 3 (C09)"),
    "C10": (
        "TLA+ definitions of the library initializers and their contracts, the random-monotonic initializer as a state "
        "machine with every shuffle outcome, model-checked by TLC; freshly built real layers validated by TLC",
        "TLC checks for every configuration of the model space (sizes up to 3x3 / 2x2x2 / 5x2, monotone / unimodal / free "
        "dimensions, none / one-sided / two-sided / negative bounds) that the linear initial kernel is linear along "
        "monotone dimensions, valley/peak shaped along unimodal ones, constant elsewhere, spans exactly the init range, "
        "is feasible and - for monotonicity+bounds-only configurations - is a fixed point of the strict constraint "
        "(LatticeOps.Constrain); and for every outcome of every per-level shuffle of the random monotonic initializer "
        "that each vertex gets a larger parameter index than all its predecessors. Real Lattice (linear / random "
        "monotonic), PWLCalibration (equal_heights / equal_slopes, decreasing) and KroneckerFactoredLattice layers are "
        "built over random valid configurations and seeds; TLC validates initial weights (shape clauses, equality with "
        "the spec's kernel as drift), that assert_constraints passes and that the layer's constraint leaves them "
        "unchanged.",
        "Configurations rejected at construction (e.g. one-sided bound >= 1 on Lattice) are counted, not judged; KFL "
        "checked through its outputs on a half-integer grid.",
        "DESIGN.md section 3 (C10)"),
    "C11": (
        "TLA+ model of the round-trip protocol whose state space is every schema class x every single / pair of "
        "non-default constructor arguments (generated by TLC); real round trips judged by TLC",
        "RoundTrip.tla defines Create -> GetConfig -> FromConfig -> GetConfig2 -> SetWeights -> Eval and its contract; "
        "MC_RoundTrip.tla holds the schema of 29 classes (7 layers incl. RTL with seeds, 7 constraints, 7 initializers, "
        "5 regularizers, FeatureConfig and the three premade model configs with their models, explicit / random / "
        "rtl_layer ensembles) and TLC enumerates all 1 300 assignments with at most two non-default arguments. Each "
        "accepted assignment is executed on the real class under the tfl custom objects: get_config, from_config, "
        "get_config again, set_weights, probe outputs (and for RTL the seed-derived structure); TLC validates that every "
        "step succeeded, the canonical configs are structurally equal, variables equal and outputs equal.",
        "Argument combinations the constructors reject are skipped (C16's subject); save/restore during training is "
        "covered with C03; two repaired defects are listed as fixed.",
        "DESIGN.md section 3 (C11)"),
    "C12": (
        "TLA+ oracle for every covered constraint kind and an injection state machine model-checked by TLC; real "
        "assert_constraints outcomes judged by TLC against the oracle",
        "AssertOps defines, per layer kind and in the assertion's own measure, when every covered constraint holds up "
        "to a tolerance; AssertOracle starts from every feasible vector of a small grid (enumerated by TLC) and changes "
        "one entry at every location in both directions by 4*eps and by 1; TLC checks the oracle is consistent. The "
        "same base vectors and injections are assigned to real Lattice / PWLCalibration / Linear / "
        "CategoricalCalibration / KroneckerFactoredLattice / RTL layers and assert_constraints(eps) is executed "
        "eagerly; TLC validates each outcome: a clear violation (> 3 eps) must fail, exact feasibility must pass.",
        "eps in {1e-6, 1e-3, 1/4}; violations between eps and 3 eps are not judged; the repaired categorical defect "
        "is listed as fixed.",
        "DESIGN.md section 3 (C12)"),
    "C13": (
        "TLA+ definitions of the documented penalties with their algebraic properties model-checked by TLC; real "
        "regularizer values validated by TLC against the definitions",
        "TLC checks on every small kernel (lattices 2x2, 2x3, 3x2 (+2x2x2 thorough); PWL kernels of 2-5 rows, cyclic or "
        "not) that the penalties are non-negative, linear in l1 and l2, that the Laplacians vanish exactly on constant "
        "functions, torsion on additively separable kernels, Hessian on outputs linear in the index and wrinkle on "
        "quadratic ones. Real LaplacianRegularizer / TorsionRegularizer (lattice) and Laplacian / Hessian / Wrinkle "
        "(PWL) objects, and the layers' kernel_regularizer path, are evaluated on random dyadic kernels (rank >= 3 with "
        "unequal sizes, units 1-2, scalar and per-dimension amounts with zeros); TLC recomputes each documented sum "
        "exactly and compares.",
        "Dyadic kernels/amounts so the expected value is exact; relative tolerance 2e-5.",
        "DESIGN.md section 3 (C13)"),
    "C14": (
        "TLA+ model of the KFL / dense-Lattice equivalence checked by TLC; differential trace validation by TLC of pairs "
        "of real observations (and of the functional forms against layers holding the derived parameters)",
        "TLC checks on every small KFL parameter set and grid point that KflEval equals hypercube interpolation of the "
        "dense kernel bias + mean_t scale_t * outer product (exact rationals). On the real code: KFL vs a Lattice "
        "loaded with that dense kernel, pwl_calibration_fn vs a PWLCalibration layer holding the returned derived "
        "keypoints/kernel, cdf_fn vs CDF for 'mean' and 'none', ParallelCombination vs column-wise calibrators (tensor "
        "and list inputs, single_output on/off), Aggregation vs a loop over ragged rows of different lengths, RTL vs "
        "gathering _rtl_structure indices into its lattice layers; TLC compares each pair entry by entry.",
        "Differential between real observations (float tolerance 6-10 units of 2^-13 relative); the geometric-mean CDF is "
        "excluded as the statement says.",
        "DESIGN.md section 3 (C14)"),
    "C15": (
        "TLA+ model of pwl_calibration_fn with softmax/sigmoid abstracted (any positive vector summing to 1 / any value "
        "in (0,1)) and everything else exact, checked by TLC over every call form; real calls validated by TLC with the "
        "derived parameters as refinement mapping",
        "TLC explores every valid combination of monotonicity, clamps, cyclic and missing modes, 2-3 keypoints, abstract "
        "softmax/sigmoid outcomes and a grid of inputs: the derived kernel has one entry per keypoint (size arithmetic of "
        "every documented form incl. omitted interior parameters), outputs stay in [output_min, output_max], clamped "
        "ends are reached, cyclic ends are equal, and the function is non-decreasing across every grid step when "
        "increasing. Real pwl_calibration_fn calls (free-form parameters up to magnitude 50, units 1-2) return their "
        "derived parameters; TLC checks the abstraction's facts on them, that the outputs are the PWL function of the "
        "derived parameters (fixed point) and the contract on real outputs; every documented call form must be "
        "accepted; CDF layers (relu6 exact, sigmoid abstract) must stay in [0,1] and be monotone on ordered pairs.",
        "Parameters large enough for float32 softmax to underflow are outside the model; the repaired None-form defect "
        "is listed as fixed.",
        "DESIGN.md section 3 (C15)"),
    "C16": (
        "TLA+ transcription of the hyperparameter rules (Valid) and of the statement's must-reject list, with the full "
        "cross product of constructor arguments generated by TLC; real construction / projection / evaluation "
        "outcomes judged by TLC",
        "ConfigSpace.tla transcribes verify_hyperparameters of Lattice, PWLCalibration, Linear, CategoricalCalibration "
        "and KroneckerFactoredLattice; TLC generates the cross product over small domains (55 398 configurations, valid "
        "and invalid) and checks MustReject => ~Valid. Each configuration (quick: all non-lattice ones and 1500 "
        "sampled lattice ones; thorough: all) is constructed, built, projected on two finite weight tensors and "
        "evaluated, in its numeric and its synonymous spelling ('increasing'/1, 'peak'/-1, 'positive'/1, single tuple / "
        "one-element list); TLC validates the outcome: rejected with ValueError or total and finite, must-reject "
        "combinations rejected, synonyms identical; Valid differing from acceptance is drift.",
        "RTL, CDF and premade configs are not in the enumerated cross product; four repaired defects are listed as fixed.",
        "DESIGN.md section 3 (C16)"),
    "C17": (
        "TLA+ state machines of the RTL arrangement, random ensemble, all-pairs cover and Crystals allocation/placement "
        "with every random choice nondeterministic, model-checked by TLC; real structures and hook-recorded steps "
        "validated by TLC",
        "TLC explores every outcome of both np.random shuffles of _get_rtl_structure (and the swap passes) for several "
        "input-group instances, every choice of the random ensemble and every order of pairs of the cover, and every "
        "small integer score table of the Crystals use allocation / greedy placement: each lattice gets lattice_rank "
        "inputs, every feature is used, RTL usage counts differ by at most one, increasing inputs sit on monotone "
        "slots, no repeated feature in a random-ensemble lattice, every pair covered, the allocation never divides 0/0 "
        "and hands out exactly num_lattices*rank uses, swap loops terminate. Real RTL layers (with the guarded hook "
        "recording shuffle1/shuffle2/swap result), set_random_lattice_ensemble, the pair cover and "
        "_get_final_crystal_lattices (scores injected at _get_torsions_and_laplacians) run over seeds / score tables; "
        "TLC validates each recorded structure (contracts) and each step against the spec (drift), output labelling and "
        "determinism in the seed.",
        "Crystals swap optimisation is not modelled (it only exchanges entries, preserving the contract); np.argsort tie "
        "order is treated as nondeterministic; the repaired 0/0 defect is listed as fixed.",
        "DESIGN.md section 3 (C17)"),
    "C18": (
        "TLA+ transcription of compute_keypoints / _weighted_quantile model-checked by TLC over all small arrays; real "
        "results validated by TLC against the contract and the transcription",
        "TLC enumerates every data array of length <= 3 (5 thorough) over 0..3 with weights {1,2}, clip bounds, default "
        "value, num_keypoints 2..3(4), both modes and reductions; the model covers default removal, clipping with "
        "zero-weight sentinels, np.unique with weight merging, the nearest-rank quantile (tie rule left open), the "
        "midpoint-CDF weighted quantile with np.interp, round-half-even and the repair loop for repeated indices; "
        "invariants: strictly increasing, within the clipped range, end points, count. The same inputs and random "
        "arrays (heavy duplicates, skew, constant after clipping) go through the real compute_keypoints, the result "
        "is offered to PWLCalibration, and TLC validates every event (contract -> VIOLATION, equality with a possible "
        "spec result -> DRIFT); compute_feature_keypoints through a small config.",
        "Integer / dyadic data (the function is scale-equivariant); one listed known finding (all data equal to the "
        "default value with weights: zero total weight); the repaired NumPy keyword defect is listed as fixed.",
        "DESIGN.md section 3 (C18)"),
    "C19": (
        "TLA+ transcription of custom_reduce_prod's gradient formula checked equal to the product's derivative for "
        "every zero pattern by TLC; real tf.GradientTape gradients validated by TLC",
        "TLC proves on all integer vectors over -2..2 up to length 4 (6 thorough) that the code's three-part formula "
        "(divide_no_nan term + single-zero term) equals dy * prod_{j#i} t_j. The same vectors are embedded along each "
        "axis of real tensors and differentiated with tf.GradientTape through custom_reduce_prod; TLC recomputes the "
        "true derivative for every recorded gradient. KFL layer gradients w.r.t. kernel, scale and inputs are compared "
        "with autodiff of the plain expression (weights with exact zeros); Lattice / PWL / categorical kernel "
        "gradients are compared with the interpolation weights defined in LatticeInterp / CalibratorOps (non-negative, "
        "summing to one, independent of the kernel).",
        "Input gradients only away from grid lines (points of non-differentiability excluded as the statement says).",
        "DESIGN.md section 3 (C19)"),
    "C06": (
        "TLA+ state machine of the partial-order projection (DFS topological sort, min/max passes) and of "
        "linear_lib.project / categorical project, model-checked over all DAGs; TLC-enumerated cases replayed; results "
        "validated by TLC",
        "TLC explores every acyclic pair set on 3 (quick) / 4 (thorough: all 543) nodes as categorical orderings and as "
        "monotonic / range dominance graphs, with sign patterns, input ranges, bounds and L1 normalisation, on every "
        "integer weight vector: the DFS yields a topological order, both min/max candidates are feasible, the final "
        "weights satisfy signs, every ordering / dominance pair, bounds and unit norm, feasible weights are unchanged. "
        "The same cases run through LinearConstraints / CategoricalCalibrationConstraints and the layers; TLC validates "
        "recorded results (contracts -> VIOLATION, algorithm equality -> DRIFT); random DAGs up to 8 nodes, L2 norm.",
        "L2 normalisation is not rational: only its contract (sum of squares = 1 unless numerically zero) is checked; "
        "float32 tolerance 32 units of 2^-21 relative.",
        "DESIGN.md section 3 (C06)"),
    "C20": (
        "TLA+ definition of the clipped affine function with its consequences model-checked by TLC; real Linear layer "
        "outputs validated by TLC against the definition",
        "TLC checks on the model that for every weight vector satisfying the C06 contract the function is monotone in "
        "each constrained input across every grid step, dominant inputs dominate (per unit step / across ranges) and "
        "an L1-normalised all-increasing layer is a weighted average. Every (configuration, kernel, input point) of the "
        "enumerated space and random dyadic cases are evaluated by tfl.layers.Linear (units>1 and units=1) and TLC "
        "recomputes bias + sum k_i*clip(x_i) exactly for each recorded event (identity -> VIOLATION on mismatch).",
        "Inputs/weights are dyadic so the expected value is exact; outputs compared within 4/2^14.",
        "DESIGN.md section 3 (C20)"),
    "C08": (
        "TLC action properties on the Dykstra state machine (exact projection per group, roll-back bookkeeping, "
        "fixed points); real project_by_dykstra runs for increasing iteration counts validated by TLC (convergence, "
        "re-projection, variational inequality against a TLC-enumerated feasible test set)",
        "Design level: TLC checks on every transition of the Dykstra part of LatticeConstraint that the group result "
        "is in the group's set and satisfies the variational inequality against every test kernel of the set "
        "(exact L2 projection; range dominance shown to be inexact and excluded as the statement does), the "
        "roll-back identity w = w0 + sum(changes), and that feasible kernels are fixed points. Code level: every "
        "enumerated case through project_by_dykstra compared step-exactly with the spec (drift), and Conv events "
        "(results for 4..256 iterations, re-projection, strict constraint) on which TLC checks convergence, "
        "stability and the nearest-point characterisation <x0-p,p>=0, <x0-p,y><=0 for all feasible integer y; "
        "PWL monotone+bounded projection likewise.",
        "Convergence checked up to 256 iterations; nearest-point test complete only when the cone's generators lie "
        "in {-1,0,1}^V (true for monotonicity/unimodality, necessary condition otherwise); fixed point 1/512.",
        "DESIGN.md section 3 (C08)"),
    "C04": (
        "TLA+ algorithm model of project_all_constraints checked exhaustively by TLC; TLC-enumerated cases replayed "
        "on the real constraint; recorded results validated by TLC against the contracts and the algorithm spec",
        "TLC explores every valid configuration of the PWL constraint cross product (monotonicity x convexity x "
        "bound/clamp types x lengths x 0..2(3) sweeps) on every integer kernel of a small domain, one action per "
        "code step, and checks the C04 contracts in every terminal state; the same cases (generated by TLC from the "
        "same definitions) and random dyadic cases are run through PWLCalibrationConstraints / the layer and the "
        "recorded results are validated by TLC (TracePwl): contract clauses decide VIOLATION, equality with the "
        "algorithm spec is reported as DRIFT.",
        "Exact rational model up to 3 Dykstra sweeps; float32 results compared with tolerance 24 units of 2^-21 "
        "relative to the largest value; beyond the enumerated constants the evidence is sampling; two listed known "
        "findings are exempted by call-site class.",
        "DESIGN.md section 3 (C04)"),
}


def main():
  checks = []
  for pid in ALL:
    if pid not in CLAIMED:
      continue
    tech, text, note, ref = CLAIMED[pid]
    checks.append({
        "property_id": pid,
        "quick_cmd": "./check %s --tier quick" % pid,
        "thorough_cmd": "./check %s --tier thorough" % pid,
        "evidence_file": "/verif/evidence/%s.json" % pid,
        "replay_cmd_template": "./check %s --replay {path}" % pid,
        "engine": "tlc",
        "level_claimed": {"category": "model_checking", "text": text, "design_ref": ref},
        "level_note": note,
        "technique": tech,
    })
  na = [{"property_id": pid,
         "reason": "check not built yet in this session (planned, see DESIGN.md section 6); not claimed until its "
                   "TLA+ model and trace validation exist"}
        for pid in ALL if pid not in CLAIMED]
  hooks_file = os.path.join(VERIF, "findings", "hook_commits.txt")
  commits = []
  if os.path.exists(hooks_file):
    commits = [l.split()[0] for l in open(hooks_file) if l.strip() and not l.startswith("#")]
  m = {
      "version": 1,
      "setup_cmd": "./setup.sh",
      "hooks": {
          "guard": "TENSORFLOW_LATTICE_VERIF",
          "enable": "environment variable TENSORFLOW_LATTICE_VERIF=1 (set by ./check); the package is imported "
                    "from /repo's working tree, nothing is built or cached",
          "baseline_off_cmd": BASE,
          "source_commits": commits,
          "add_only": True,
      },
      "engines": [{"name": "tlc", "path": "/verif/spec", "serves_properties": sorted(CLAIMED),
                   "kind_free_text": "explicit TLA+ specifications (spec/*.tla) model-checked by TLC 1.8; "
                                     "spec->code replay of TLC-generated cases and code->spec trace validation "
                                     "driven by harness/*.py"}],
      "checks": checks,
      "not_applicable": na,
      "notes": "All verdicts come from TLC evaluating the TLA+ contracts, on the model and on events recorded from "
               "the real library. Known findings: findings/known_findings.json.",
  }
  if not na:
    del m["not_applicable"]
  with open(os.path.join(VERIF, "MANIFEST.json"), "w") as f:
    json.dump(m, f, indent=1)
  print("MANIFEST.json: %d checks, %d not applicable" % (len(checks), len(na)))


if __name__ == "__main__":
  main()
