"""Child process of the C11 check: a model described by its configuration is rebuilt in ANOTHER interpreter.

argv: <workdir>.  workdir/jobs.json: list of {"id", "config" (CalibratedLatticeEnsembleConfig.get_config() as JSON, still
lattices='random' / 'rtl_layer' + random_seed), "weights" (file name of the saved weights), "nf"}; stdout: one line
"C11CHILD <json list of {"id", "lattices", "outs"}>".  The seed-derived structure must be a function of the configuration
alone, so the rebuilt model must accept the saved weights and compute the same function."""
import json
import os
import sys

os.environ.setdefault("TF_CPP_MIN_LOG_LEVEL", "3")
os.environ.setdefault("CUDA_VISIBLE_DEVICES", "")


def probe(np, nf):
  rs = np.random.RandomState(11)
  return [rs.uniform(-0.25, 1.25, size=(24, 1)).astype("float32") for _ in range(nf)]


def rebuild(tfl, cfg_json):
  cfg = tfl.configs.CalibratedLatticeEnsembleConfig.from_config(cfg_json, custom_objects=tfl.premade.get_custom_objects())
  if cfg.lattices == "random":
    tfl.premade_lib.set_random_lattice_ensemble(cfg)
  lat = [[str(n) for n in l] for l in cfg.lattices] if isinstance(cfg.lattices, list) else str(cfg.lattices)
  return cfg, lat, tfl.premade.CalibratedLatticeEnsemble(cfg)


def main():
  import numpy as np
  import tensorflow_lattice as tfl
  wd = sys.argv[1]
  with open(os.path.join(wd, "jobs.json")) as f:
    jobs = json.load(f)
  out = []
  for j in jobs:
    try:
      _, lat, model = rebuild(tfl, j["config"])
      model.load_weights(os.path.join(wd, j["weights"]))
      y = model.predict(probe(np, j["nf"]), verbose=0)
      out.append({"id": j["id"], "lattices": lat, "outs": [float(v) for v in np.ravel(y)]})
    except Exception as ex:  # pylint: disable=broad-except
      out.append({"id": j["id"], "raised": "%s: %s" % (type(ex).__name__, str(ex)[:200])})
  sys.stdout.write("C11CHILD " + json.dumps(out) + "\n")


if __name__ == "__main__":
  main()
