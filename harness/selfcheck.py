"""setup: SANY-parse all modules in parallel; import tensorflow_lattice from /repo."""
import glob
import os
import sys
from concurrent.futures import ThreadPoolExecutor

import common


def main():
  mods = sorted(os.path.splitext(os.path.basename(p))[0] for p in glob.glob(os.path.join(common.SPEC, "*.tla")))
  with ThreadPoolExecutor(max_workers=8) as ex:
    res = list(ex.map(common.sany, mods))
  bad = [(m, out) for m, (ok, out) in zip(mods, res) if not ok]
  for m, out in bad:
    print("SANY failed for", m)
    print(out[-2000:])
  print("parsed %d TLA+ modules, %d failed" % (len(mods), len(bad)))
  tf, tfl = common.import_tf()
  print("tensorflow", tf.__version__, "tensorflow_lattice from", os.path.dirname(tfl.__file__))
  return 1 if bad else 0


if __name__ == "__main__":
  sys.exit(main())
