"""C17 - Ensemble structures use every feature, fill each lattice, respect monotone slots.

spec: RtlOps.tla / RtlStructure.tla (both shuffles nondeterministic, swap passes, sort+group),
      EnsembleCover.tla (random ensemble and all-pairs cover with every random choice nondeterministic),
      CrystalsOps.tla / Crystals.tla (use allocation, add list, greedy placement),
      TraceEnsembles.tla (real structures and hook-recorded steps validated by TLC)
"""
import itertools
import json

import numpy as np

import common
from common import log


def rtl_event(tf, tfl, rtl_layer, shape, nl, rank, seed, avoid=True):
  def build():
    del rtl_layer._VERIF_TRACE[:]
    layer = tfl.layers.RTL(num_lattices=nl, lattice_rank=rank, random_seed=seed, separate_outputs=True,
                           avoid_intragroup_interaction=avoid)
    layer.build(shape)
    steps = dict((k, [list(t) for t in v]) for k, v in rtl_layer._VERIF_TRACE)
    structure = [[list(m), [list(map(int, l)) for l in lats]] for m, lats in layer._rtl_structure]
    return layer, steps, structure
  layer, steps, structure = build()
  _, _, again = build()
  oshape = layer.compute_output_shape(shape)
  resp = wiring_response(tf, layer, shape)
  ev = {"ev": "Rtl", "nl": nl, "rank": rank, "inputs": steps.get("inputs", []), "shuffle1": steps.get("shuffle1", []),
        "shuffle2": steps.get("shuffle2", []), "swapped": steps.get("swapped", []), "structure": structure, "again": again,
        "nInc": int(oshape.get("increasing", (None, 0))[1]), "nUnc": int(oshape.get("unconstrained", (None, 0))[1]),
        "resp": resp,
        "site": {"layer": "rtl"}, "call": {"shape": str(shape), "nl": nl, "rank": rank, "seed": seed}}
  return ev


def wiring_response(tf, layer, shape):
  """Behavioural wiring observation: every lattice gets the kernel  sum(v_d, d monotone) - sum(v_d, d unconstrained),
  then each supplied column is raised in turn (inputs passed exactly as the shape dictionary is written) and the
  change of every lattice output is recorded: [supplied as increasing?, min change, max change] * 1024."""
  cols = []           # (key, item index or None, column)
  for key, val in shape.items():
    items = val if isinstance(val, list) else [val]
    for ii, shp in enumerate(items):
      for j in range(shp[1]):
        cols.append((key, ii if isinstance(val, list) else None, j))

  def call(raised):
    x = {}
    for key, val in shape.items():
      items = val if isinstance(val, list) else [val]
      ts = []
      for ii, shp in enumerate(items):
        a = np.full((1, shp[1]), 0.25, dtype=np.float32)
        if raised is not None and raised[0] == key and (raised[1] is None or raised[1] == ii):
          a[0, raised[2]] = 0.75
        ts.append(tf.constant(a))
      x[key] = ts if isinstance(val, list) else ts[0]
    y = layer(x)
    ys = y if isinstance(y, dict) else {"all": y}
    return np.concatenate([np.asarray(ys[k]).reshape(-1) for k in sorted(ys)])
  call(None)           # the sub-layers create their variables on the first call
  for key, sub in layer._lattice_layers.items():
    monos = [int(v) for v in key.strip("()[] ").replace(" ", "").split(",") if v != ""]
    rank = len(monos)
    coords = np.indices((2,) * rank).reshape(rank, -1)          # lattice_size 2
    k = sum((1.0 if m else -1.0) * coords[d] for d, m in enumerate(monos)).astype(np.float32)
    sub.kernel.assign(np.repeat(k[:, None], sub.kernel.shape[1], axis=1))
  base = call(None)
  resp = []
  for c in cols:
    d = call(c) - base
    resp.append([1 if c[0] == "increasing" else 0, int(round(float(d.min()) * 1024)), int(round(float(d.max()) * 1024))])
  return resp


def rtl_events(tf, tfl, ctx, n_seeds):
  from tensorflow_lattice.python import rtl_layer
  if not getattr(rtl_layer, "_VERIF", False):
    raise common.MachineryError("RTL hook not active (TENSORFLOW_LATTICE_VERIF=1 and the hook commit are required)")
  shapes = [
      ({"increasing": [(None, 2), (None, 1)], "unconstrained": [(None, 2)]}, 3, 2),
      ({"increasing": [(None, 2)], "unconstrained": (None, 2)}, 3, 2),
      ({"increasing": (None, 3), "unconstrained": [(None, 3)]}, 2, 3),
      ({"unconstrained": [(None, 2), (None, 2)]}, 3, 2),
      ({"increasing": [(None, 3), (None, 2)], "unconstrained": [(None, 1), (None, 2)]}, 4, 3),
      ({"increasing": (None, 4)}, 3, 2),
      # the same kinds of input with the dictionary written in the other key order (the class docstring's order)
      ({"unconstrained": [(None, 2)], "increasing": [(None, 2), (None, 1)]}, 3, 2),
      ({"unconstrained": (None, 3), "increasing": (None, 2)}, 2, 3),
  ]
  evs = []
  for si, (shape, nl, rank) in enumerate(shapes):
    for seed in range(n_seeds):
      try:
        evs.append(rtl_event(tf, tfl, rtl_layer, shape, nl, rank, seed + 1000 * ctx.seed))
        ctx.count(1, nontrivial_key=("rtl", si, seed))
      except Exception as ex:  # pylint: disable=broad-except
        evs.append({"ev": "Raised", "site": {"layer": "rtl"}, "exc": repr(ex)[:300], "call": {"shape": str(shape), "seed": seed}})
  return evs


def ensemble_config(tfl, nf, nl, rank, seed, lattices):
  fcs = [tfl.configs.FeatureConfig(name="f%d" % i, pwl_calibration_input_keypoints=[0.0, 1.0]) for i in range(nf)]
  return tfl.configs.CalibratedLatticeEnsembleConfig(feature_configs=fcs, lattices=lattices, num_lattices=nl,
                                                     lattice_rank=rank, random_seed=seed, output_initialization=[0.0, 1.0])


def other_interpreter(jobs, hashseed):
  """The same jobs in a fresh interpreter with another string-hash seed (harness/c17_child.py)."""
  import os
  import subprocess
  import sys
  env = dict(os.environ, PYTHONHASHSEED=str(hashseed))
  p = subprocess.run([sys.executable, os.path.join(os.path.dirname(os.path.abspath(__file__)), "c17_child.py")],
                     input=json.dumps(jobs), stdout=subprocess.PIPE, stderr=subprocess.DEVNULL, text=True, env=env, timeout=900)
  for line in p.stdout.splitlines():
    if line.startswith("C17CHILD "):
      return json.loads(line[len("C17CHILD "):])
  raise common.MachineryError("C17 child interpreter produced no result (rc=%s)" % p.returncode)


def random_events(tfl, ctx, n_seeds):
  from tensorflow_lattice.python import premade_lib
  evs = []
  for nf, nl, rank in [(4, 3, 2), (5, 2, 3), (3, 3, 3), (6, 4, 2), (7, 3, 3), (2, 3, 2)]:
    for seed in range(n_seeds):
      names = ["f%d" % i for i in range(nf)]
      res = []
      try:
        for _ in range(2):
          mc = ensemble_config(tfl, nf, nl, rank, seed + 1000 * ctx.seed, "random")
          premade_lib.set_random_lattice_ensemble(mc, names)
          res.append([[names.index(f) + 1 for f in lat] for lat in mc.lattices])
        evs.append({"ev": "Random", "nf": nf, "nl": nl, "rank": rank, "lattices": res[0], "again": res[1],
                    "site": {"layer": "random_ensemble"}, "call": {"nf": nf, "nl": nl, "rank": rank, "seed": seed}})
        ctx.count(1, nontrivial_key=("random", nf, nl, rank, seed))
      except Exception as ex:  # pylint: disable=broad-except
        evs.append({"ev": "Raised", "site": {"layer": "random_ensemble"}, "exc": repr(ex)[:300],
                    "call": {"nf": nf, "nl": nl, "rank": rank, "seed": seed}})
  return evs


def cover_events(tfl, ctx, n_seeds):
  from tensorflow_lattice.python import premade_lib
  evs = []
  for nf, rank in [(4, 2), (5, 3), (4, 3), (6, 3), (7, 4), (3, 2)]:
    for seed in range(n_seeds):
      names = ["f%d" % i for i in range(nf)]
      try:
        mc = ensemble_config(tfl, nf, 2, rank, seed + 1000 * ctx.seed, "crystals")
        premade_lib._set_all_pairs_cover_lattices(mc, names)
        evs.append({"ev": "Cover", "nf": nf, "rank": rank, "lattices": [[names.index(f) + 1 for f in lat] for lat in mc.lattices],
                    "site": {"layer": "pair_cover"}, "call": {"nf": nf, "rank": rank, "seed": seed}})
        ctx.count(1, nontrivial_key=("cover", nf, rank, seed))
      except Exception as ex:  # pylint: disable=broad-except
        evs.append({"ev": "Raised", "site": {"layer": "pair_cover"}, "exc": repr(ex)[:300], "call": {"nf": nf, "rank": rank}})
  return evs


def crystals_events(tfl, ctx, tables):
  """Drives the real _get_final_crystal_lattices with chosen torsion / Laplacian scores (the values a prefitting
  model would supply are replaced at the function that computes them; everything after that is the real code)."""
  from tensorflow_lattice.python import premade_lib
  if not getattr(premade_lib, "_VERIF", False):
    raise common.MachineryError("crystals hook not active")
  evs = []
  orig = premade_lib._get_torsions_and_laplacians
  try:
    for nf, nl, rank, tt, lp in tables:
      names = ["f%d" % i for i in range(nf)]
      premade_lib._get_torsions_and_laplacians = lambda **kw: ([[float(v) for v in row] for row in tt], [float(v) for v in lp])
      mc = ensemble_config(tfl, nf, nl, rank, 1, "crystals")
      del premade_lib._VERIF_TRACE[:]
      imp = [6 * lp[f] + sum(tt[f][g] for g in range(nf) if g != f) for f in range(nf)]
      order = sorted(range(nf), key=lambda f: (-imp[f], f))
      zero_tail = any(sum(imp[f] for f in order[n:]) == 0 for n in range(nf))
      site = {"layer": "crystals", "remaining_importance_all_zero": bool(zero_tail)}
      call = {"nf": nf, "nl": nl, "rank": rank, "tt": tt, "lp": lp}
      try:
        final = premade_lib._get_final_crystal_lattices(mc, mc, None, names)
      except Exception as ex:  # pylint: disable=broad-except
        evs.append({"ev": "Raised", "site": site, "exc": repr(ex)[:300], "call": call})
        continue
      steps = dict(premade_lib._VERIF_TRACE)
      evs.append({"ev": "Crystals", "nf": nf, "nl": nl, "rank": rank, "tt": tt, "lp": lp,
                  "uses": steps.get("features_uses", []), "placed": [[f + 1 for f in l] for l in steps.get("placed", [])],
                  "final": [[int(f) + 1 for f in l] for l in final], "site": site, "call": call})
      ctx.count(1, nontrivial_key=("crystals", nf, nl, rank, str(tt), str(lp)))
  finally:
    premade_lib._get_torsions_and_laplacians = orig
  return evs


def score_tables(ctx, rng):
  tables = []
  # every table over {0,1,2} for 3 features / 2 lattices / rank 2 (the TLC model's space), sampled in quick
  nf = 3
  allt = list(itertools.product(range(3), repeat=6))
  if ctx.quick:
    allt = [allt[i] for i in rng.choice(len(allt), size=150, replace=False)] + [(0, 0, 0, 1, 0, 0), (1, 1, 1, 0, 0, 0)]
  for t in allt:
    tt = [[0, t[0], t[1]], [t[0], 0, t[2]], [t[1], t[2], 0]]
    tables.append((3, 2, 2, tt, list(t[3:])))
  for _ in range(40 if ctx.quick else 600):
    nf = int(rng.integers(3, 6))
    nl, rank = int(rng.integers(2, 4)), int(rng.integers(2, 4))
    if nl * rank < nf or rank > nf:
      continue
    m = rng.integers(0, 4, size=(nf, nf))
    tt = np.triu(m, 1)
    tt = (tt + tt.T).tolist()
    tables.append((nf, nl, rank, tt, [int(v) for v in rng.integers(0, 3, size=nf)]))
  return tables


def run(ctx):
  tf, tfl = common.import_tf()
  ctx.rule = ("Rtl: real RTL layers over input-shape dictionaries with monotone / unconstrained, grouped multi-unit inputs x "
              "seeds, with the hook-recorded shuffles and swap result; Random / Cover: set_random_lattice_ensemble and the "
              "all-pairs cover over feature counts, ranks and seeds; Crystals: the real _get_final_crystal_lattices on every "
              "integer score table of the model's space (sampled in quick) and random larger ones; each run twice for "
              "determinism; non-trivial = distinct (instance, seed)")
  for m in ("Rtl_b.cfg", "Rtl_a.cfg", "Rtl_c.cfg", "Rtl_a2.cfg"):
    ctx.model("MC_RtlStructure", m)
  for m in ("Ens_r1.cfg", "Ens_r2.cfg", "Ens_r3.cfg", "Ens_c1.cfg", "Ens_c2.cfg", "Ens_c3.cfg"):
    ctx.model("EnsembleCover", m)
  ctx.model("MC_Crystals", "Cry_q1.cfg")
  ctx.model("MC_Crystals", "Cry_q2.cfg")
  if not ctx.quick:
    ctx.model("MC_Crystals", "Cry_t1.cfg", timeout=7200)
  ctx.model("MC_Crystals", "Cry_known.cfg", expect_violation="InvOriginalTotal",
            note="self-test: the original use allocation (before the fix: commit) hits 0/0 at design level")
  ctx.exhaustive = True
  rng = np.random.default_rng(ctx.seed + 1717)
  n = 12 if ctx.quick else 150
  events = rtl_events(tf, tfl, ctx, n) + random_events(tfl, ctx, n) + cover_events(tfl, ctx, n)
  events += crystals_events(tfl, ctx, score_tables(ctx, rng))
  # "a deterministic function of the seed": the same jobs in two fresh interpreters with other string-hash seeds
  jobs, targets = [], []
  for e in events:
    if e["ev"] in ("Random", "Cover"):
      c = e["call"]
      jobs.append({"kind": "random" if e["ev"] == "Random" else "cover", "nf": c["nf"], "nl": c.get("nl", 2), "rank": c["rank"],
                   "seed": c["seed"] + 1000 * ctx.seed})
      targets.append(e)
  for hs in (1, 2):
    res = other_interpreter(jobs, hs)
    for e, r in zip(targets, res):
      e.setdefault("others", []).append(r if isinstance(r, list) else [])
  ctx.extra["interpreters_compared"] = 3
  log("  %d events" % len(events))
  ctx.sample({k: events[0].get(k) for k in ("ev", "nl", "rank", "inputs", "shuffle1", "shuffle2", "swapped", "structure")})
  ctx.validate("TraceEnsembles", events)
  return ctx.finish()


def replay(ctx, path):
  tf, tfl = common.import_tf()
  with open(path) as f:
    rec = json.load(f)
  events = []
  for ev in rec["events"]:
    call = ev["call"]
    if "tt" in call:
      events += crystals_events(tfl, ctx, [(call["nf"], call["nl"], call["rank"], call["tt"], call["lp"])])
    log("replay %s" % json.dumps(call))
  if events:
    ctx.validate("TraceEnsembles", events, shards=1)
  return ctx.finish()
