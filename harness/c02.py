"""C02 - Lattice output is exact hypercube/simplex interpolation, inheriting kernel shape.

spec: LatticeInterp.tla (Hyper, Simplex), LatticeEval.tla (invariants and inheritance action properties),
      MC_LatticeEval.tla, TraceLatticeEval.tla (identity on real outputs)
"""
import itertools
import json

import numpy as np

import common
from common import log
from latcfg import frac

KDEN, ODEN = 16, 2 ** 14


def evaluate(tf, tfl, sizes, interp, clip, K, X, as_list=False, extra_batch=False, dtype="float32"):
  """K: (V, units); X: (batch, rank). Returns (batch, units)."""
  units = K.shape[1]
  layer = tfl.layers.Lattice(lattice_sizes=list(sizes), units=units, interpolation=interp, clip_inputs=clip,
                             **({} if dtype == "float32" else {"dtype": dtype}))
  tft = tf.float32 if dtype == "float32" else tf.float64
  rank = len(sizes)
  layer.build((None, rank) if units == 1 else (None, units, rank))
  layer.kernel.assign(K.astype(np.float32 if dtype == "float32" else np.float64))
  Xi = X if units == 1 else np.repeat(X[:, None, :], units, axis=1)
  if extra_batch:
    Xi = Xi[:, None]
  if as_list:
    inp = [tf.constant(Xi[..., d:d + 1], dtype=tft) for d in range(rank)]
  else:
    inp = tf.constant(Xi, dtype=tft)
  out = layer(inp).numpy()
  return out.reshape(len(X), units)


def events_for(sizes, interp, clip, K, X, out, xden, ctx, path):
  evs = []
  site = {"layer": "lattice", "interp": interp, "path": path}
  for u in range(K.shape[1]):
    kints = [int(round(float(v) * KDEN)) for v in K[:, u]]
    for r in range(len(X)):
      o = float(out[r, u])
      call = {"sizes": list(sizes), "interp": interp, "clip": clip, "k": [float(v) for v in K[:, u]],
              "x": [float(v) for v in X[r]], "path": path}
      if not common.all_finite([o]):
        evs.append({"ev": "NonFinite", "site": site, "call": call})
        continue
      evs.append({"ev": "Eval", "sizes": list(sizes), "interp": interp, "clip": bool(clip), "kden": KDEN, "k": kints,
                  "xden": xden, "x": [int(round(float(v) * xden)) for v in X[r]], "oden": ODEN,
                  "out": int(round(o * ODEN)), "tolu": 6, "site": site, "call": call})
  ctx.count(K.shape[1] * len(X))
  return evs


def basis_and_dense(rng, nv, dense):
  cols = [np.eye(nv, dtype=np.float32)[:, j] for j in range(nv)]
  for _ in range(dense):
    cols.append((rng.integers(-32, 33, size=nv) / 16.0).astype(np.float32))
  return np.stack(cols, axis=1)


def in_range(sizes, X):
  return np.all((X >= 0) & (X <= np.array(sizes) - 1), axis=1)


def run(ctx):
  tf, tfl = common.import_tf()
  ctx.rule = ("cases = every lattice shape of the TLC size sets x one-hot basis kernels (the function is linear in the "
              "kernel) and dense dyadic kernels x every point of the rational grid (interior, faces, vertices, ties, "
              "outside), both interpolation schemes, tensor and list inputs, extra batch dimension, clip on (all points) "
              "and off (in-range points), units 1 and >1; plus random shapes up to rank 9 (all-2 fast path, runs of "
              "equal sizes, matmul path); non-trivial = point not a vertex")
  ctx.model("MC_LatticeEval", "LatEval_q.cfg")
  if not ctx.quick:
    ctx.model("MC_LatticeEval", "LatEval_t1.cfg", timeout=14400)
    ctx.model("MC_LatticeEval", "LatEval_t2.cfg", timeout=14400)
  ctx.exhaustive = True
  files = ctx.tlc_cases("GenLatticeEval", "GenLatEval.cfg", env={"VERIF_TIER": ctx.tier})
  rng = np.random.default_rng(ctx.seed + 202)
  events = []
  for cf in files:
    xg = [float(frac(p)) for p in cf["xgrid"]]
    xden = max(int(p[1]) for p in cf["xgrid"])
    for sizes in cf["sizes"]:
      nv = int(np.prod(sizes))
      K = basis_and_dense(rng, nv, 2)
      X = np.array([p for p in itertools.product(xg, repeat=len(sizes))
                    if all(p[d] <= sizes[d] + 0.5 for d in range(len(sizes)))], dtype=np.float32)
      if len(X) > (150 if ctx.quick else 600):
        X = X[rng.choice(len(X), size=150 if ctx.quick else 600, replace=False)]
      for interp in ("hypercube", "simplex"):
        Xin = X[in_range(sizes, X)]
        for clip, Kc, Xc, kw, path in ((True, K, X, {}, "tensor,units>1,clip"),
                                       (False, K[:, :3], Xin, {"as_list": True}, "list,units>1,noclip"),
                                       (True, K[:, -1:], X, {"extra_batch": True}, "tensor,units=1,extra-batch,clip"),
                                       (True, K[:, -1:], X[:40], {"as_list": True}, "list,units=1,clip")):
          try:
            out = evaluate(tf, tfl, sizes, interp, clip, Kc, Xc, **kw)
          except Exception as ex:  # pylint: disable=broad-except
            # the layer raised on finite inputs of an accepted configuration: the function has no value there
            events.append({"ev": "Raised", "site": {"layer": "lattice"}, "exc": repr(ex)[:300],
                           "call": {"sizes": list(sizes), "interp": interp, "clip": clip, "path": path}})
            continue
          events += events_for(sizes, interp, clip, Kc, Xc, out, xden, ctx, path)
      ctx.nontrivial.add(str(sizes))
  log("  %d enumerated Eval events" % len(events))
  ctx.sample({k: events[len(events) // 2].get(k) for k in ("sizes", "interp", "clip", "k", "x", "out", "oden")})
  # random shapes, higher ranks (x on a coarser grid so that the exact value stays within 32 bits)
  shapes = [[2] * 8, [2] * 9, [2, 2, 3, 3, 2], [3, 3, 3], [2, 2, 2, 4], [4, 4], [5], [2, 3, 3, 2, 2, 2, 2], [3, 2, 2, 2, 2, 2, 2, 2]]
  for j in range(12 if ctx.quick else 200):
    sizes = shapes[j % len(shapes)] if j < 2 * len(shapes) else [int(rng.integers(2, 4)) for _ in range(int(rng.integers(1, 8)))]
    rank = len(sizes)
    nv = int(np.prod(sizes))
    if nv > 600:
      continue
    xden = 16 if rank <= 3 else (4 if rank <= 5 else 2)
    units = int(rng.choice([1, 2]))
    K = (rng.integers(-32, 33, size=(nv, units)) / 16.0).astype(np.float32)
    nb = 4 if nv > 200 else 10
    X = np.stack([rng.integers(-xden // 2, (s - 1) * xden + xden // 2 + 1, size=nb) / float(xden) for s in sizes], axis=1).astype(np.float32)
    for interp in ("hypercube", "simplex"):
      clip = bool(j % 2 == 0)
      Xe = X if clip else X[in_range(sizes, X)]
      if len(Xe) == 0:
        continue
      try:
        f64 = j % 4 == 1          # every fourth layer computes in float64
        out = evaluate(tf, tfl, sizes, interp, clip, K, Xe, as_list=(j % 3 == 0), dtype="float64" if f64 else "float32")
        events += events_for(sizes, interp, clip, K, Xe, out, xden, ctx, "random64" if f64 else "random")
        ctx.nontrivial.add(str(sizes))
      except Exception as ex:  # pylint: disable=broad-except
        events.append({"ev": "Raised", "site": {"layer": "lattice", "interp": interp, "path": "random"},
                       "exc": repr(ex)[:300], "call": {"sizes": sizes}})
  ctx.validate("TraceLatticeEval", events)
  return ctx.finish()


def replay(ctx, path):
  tf, tfl = common.import_tf()
  with open(path) as f:
    rec = json.load(f)
  events = []
  for ev in rec["events"]:
    call = ev["call"]
    K = np.array(call["k"], dtype=np.float32).reshape(-1, 1)
    X = np.array([call["x"]], dtype=np.float32)
    out = evaluate(tf, tfl, call["sizes"], call["interp"], call["clip"], K, X,
                   dtype="float64" if call.get("path") == "random64" else "float32")
    log("replay %s -> %s" % (call, out.tolist()))
    events += events_for(call["sizes"], call["interp"], call["clip"], K, X, out, ev["xden"], ctx, "replay")
  ctx.validate("TraceLatticeEval", events, shards=1)
  return ctx.finish()
