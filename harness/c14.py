"""C14 - Alternative representations of the same function agree.

spec: KflDense.tla (KFL = Lattice with the dense kernel, model-checked), ConditionalOps.tla, TraceConditional.tla
      (pwl_calibration_fn vs PWLCalibration layer, cdf_fn vs CDF layer, and Pair events: real vs real observations)
"""
import itertools
import json

import numpy as np

import common
import c07
import c15
from common import log

ODEN = 2 ** 13


def ints(a, den=ODEN):
  return [int(round(float(v) * den)) for v in np.asarray(a, dtype=np.float64).reshape(-1)]


def pair(what, a, b, ctx, tolu=6, call=None):
  a, b = np.asarray(a, dtype=np.float64).reshape(-1), np.asarray(b, dtype=np.float64).reshape(-1)
  site = {"layer": what}
  if not (common.all_finite(a) and common.all_finite(b)):
    return {"ev": "NonFinite", "site": site, "call": call or {}}
  sc = max(1.0, float(np.abs(a).max(initial=0.0)), float(np.abs(b).max(initial=0.0)))
  den = 2 ** max(0, 13 - int(np.ceil(np.log2(sc))))
  ctx.count(1, nontrivial_key=(what, json.dumps(call, sort_keys=True, default=str)))
  return {"ev": "Pair", "what": what, "a": ints(a, den), "b": ints(b, den), "tolu": tolu, "site": site, "call": call or {}}


def kfl_vs_lattice(tf, tfl, ctx, rng, n):
  evs = []
  for j in range(n):
    L = int(rng.choice([2, 3, 4]))
    dims = int(rng.integers(1, 5))
    terms = int(rng.integers(1, 4))
    units = int(rng.choice([1, 2]))
    if j % 8 == 3:
      # high rank: the dense lattice switches to another way of forming its interpolation weights after 7 dimensions
      L, dims, terms = 2, int(rng.choice([8, 9])), int(rng.integers(1, 3))
    if L ** dims > 600:
      continue
    c = {"L": L, "dims": dims, "terms": terms, "mono": [0] * dims, "hasMin": False, "omin": [0, 1], "hasMax": False,
         "omax": [1, 1], "clip": bool(j % 2)}
    layer = c07.make_layer(tfl, c, units)
    W = (rng.integers(-32, 33, size=(units, L, dims, terms)) / 16.0).astype(np.float32)
    S = (rng.integers(-32, 33, size=(units, terms)) / 16.0).astype(np.float32)
    Bv = (rng.integers(-32, 33, size=(units,)) / 16.0).astype(np.float32)
    layer.kernel.assign(c07.to_var(c, W))
    layer.scale.assign(S)
    layer.bias.assign(Bv)
    # dense kernel: bias + mean_t scale_t * outer product over dims of w[:, d, t]
    dense = np.zeros((L ** dims, units), dtype=np.float64)
    for u in range(units):
      acc = np.zeros(L ** dims)
      for t in range(terms):
        outer = np.ones(1)
        for d in range(dims):                    # row-major: dimension 0 is the most significant index
          outer = np.multiply.outer(outer, W[u, :, d, t].astype(np.float64)).reshape(-1)
        acc += S[u, t] * outer
      dense[:, u] = Bv[u] + acc / terms
    lat = tfl.layers.Lattice(lattice_sizes=[L] * dims, units=units, clip_inputs=c["clip"])
    lat.build((None, dims) if units == 1 else (None, units, dims))
    lat.kernel.assign(dense.astype(np.float32))
    X = (rng.integers(0 if not c["clip"] else -16, 32 * (L - 1) + (17 if c["clip"] else 1), size=(8, units, dims)) / 32.0).astype(np.float32)
    xin = tf.constant(X if units > 1 else X[:, 0, :])
    evs.append(pair("KflEqualsDenseLattice", layer(xin).numpy(), lat(xin).numpy(), ctx, tolu=10,
                    call={"L": L, "dims": dims, "terms": terms, "units": units, "clip": c["clip"]}))
  return evs


def parallel_combination(tf, tfl, ctx, rng, n):
  evs = []
  for j in range(n):
    k = int(rng.integers(1, 5))
    single = bool(j % 2)
    pc = tfl.layers.ParallelCombination(single_output=single)
    layers = []
    for i in range(k):
      kp = np.cumsum(rng.integers(1, 5, size=int(rng.integers(2, 5)))) / 2.0
      lay = tfl.layers.PWLCalibration(input_keypoints=[float(v) for v in kp])
      pc.append(lay)
      layers.append(lay)
    X = (rng.integers(0, 160, size=(6, k)) / 16.0).astype(np.float32)
    out = pc(tf.constant(X))
    for lay in layers:
      lay.kernel.assign((rng.integers(-32, 33, size=lay.kernel.shape) / 16.0).astype(np.float32))
    out = pc(tf.constant(X))
    want = np.concatenate([layers[i](tf.constant(X[:, i:i + 1])).numpy() for i in range(k)], axis=1)
    got = out.numpy() if single else np.concatenate([o.numpy() for o in out], axis=1)
    evs.append(pair("ParallelCombinationColumnwise", got, want, ctx, call={"k": k, "single_output": single}))
    # list-of-tensors input form
    out2 = pc([tf.constant(X[:, i:i + 1]) for i in range(k)])
    got2 = out2.numpy() if single else np.concatenate([o.numpy() for o in out2], axis=1)
    evs.append(pair("ParallelCombinationListInput", got2, want, ctx, call={"k": k, "single_output": single, "list": True}))
  return evs


def aggregation(tf, tfl, ctx, rng, n):
  evs = []
  keras = tfl.layers.Aggregation.__mro__[1].__module__
  import tf_keras
  for j in range(n):
    nf = int(rng.integers(1, 4))
    inputs = [tf_keras.Input(shape=(1,)) for _ in range(nf)]
    h = tf_keras.layers.Concatenate()(inputs) if nf > 1 else inputs[0]
    d1 = tf_keras.layers.Dense(3, activation="tanh")(h)
    out = tf_keras.layers.Dense(1)(d1)
    model = tf_keras.Model(inputs=inputs, outputs=out)
    agg = tfl.layers.Aggregation(model)
    rows = [int(v) for v in rng.integers(1, 5, size=4)]
    feats = [[(rng.integers(-32, 33, size=r) / 16.0).astype(np.float32) for r in rows] for _ in range(nf)]
    ragged = [tf.ragged.constant([f.tolist() for f in feats[i]], dtype=tf.float32) for i in range(nf)]
    got = agg(ragged).numpy().reshape(-1)
    want = []
    for b, r in enumerate(rows):
      vals = model([tf.constant(feats[i][b].reshape(-1, 1)) for i in range(nf)]).numpy().reshape(-1)
      want.append(float(np.mean(vals)))
    evs.append(pair("AggregationIsRaggedMean", got, want, ctx, tolu=10, call={"nf": nf, "rows": rows}))
  return evs


def rtl_gather(tf, tfl, ctx, rng, n):
  evs = []
  for j in range(n):
    nl, rank = int(rng.integers(2, 5)), int(rng.integers(2, 4))
    ninc, nunc = int(rng.integers(1, 4)), int(rng.integers(1, 4))
    if nl * rank < ninc + nunc:
      continue
    layer = tfl.layers.RTL(num_lattices=nl, lattice_rank=rank, random_seed=int(rng.integers(0, 1000)))
    shape = {"increasing": (None, ninc), "unconstrained": (None, nunc)}
    xi = (rng.integers(0, 17, size=(6, ninc)) / 16.0).astype(np.float32)
    xu = (rng.integers(0, 17, size=(6, nunc)) / 16.0).astype(np.float32)
    got = layer({"increasing": tf.constant(xi), "unconstrained": tf.constant(xu)}).numpy()
    for lat in layer._lattice_layers.values():
      lat.kernel.assign((rng.integers(0, 33, size=lat.kernel.shape) / 32.0).astype(np.float32))
    got = layer({"increasing": tf.constant(xi), "unconstrained": tf.constant(xu)}).numpy()
    flat = np.concatenate([xi, xu], axis=1)            # sorted keys: increasing, then unconstrained
    outs = [[], []]
    for monos, lattices in layer._rtl_structure:
      lat = layer._lattice_layers[str(monos)]
      idx = np.array([list(l) for l in lattices])
      inp = flat[:, idx]                                # (B, units, rank)
      if len(lattices) == 1:
        inp = inp[:, 0, :]
      outs[max(monos)].append(lat(tf.constant(inp)).numpy())
    want = np.concatenate(outs[0] + outs[1], axis=1)
    evs.append(pair("RtlIsGatherIntoLattices", got, want, ctx, call={"nl": nl, "rank": rank, "ninc": ninc, "nunc": nunc}))
    # the same inputs with the dictionary built in the other key order, with lists of single-column tensors, and
    # (all-unconstrained layers) as a plain tensor: the recorded indices refer to one fixed flattening
    got2 = layer({"unconstrained": tf.constant(xu), "increasing": tf.constant(xi)}).numpy()
    evs.append(pair("RtlIsGatherIntoLattices", got2, want, ctx, call={"nl": nl, "rank": rank, "ninc": ninc, "nunc": nunc, "form": "reversed keys"}))
    got3 = layer({"unconstrained": [tf.constant(xu[:, k:k + 1]) for k in range(nunc)],
                  "increasing": [tf.constant(xi[:, k:k + 1]) for k in range(ninc)]}).numpy()
    evs.append(pair("RtlIsGatherIntoLattices", got3, want, ctx, call={"nl": nl, "rank": rank, "ninc": ninc, "nunc": nunc, "form": "lists"}))
  return evs


def run(ctx):
  tf, tfl = common.import_tf()
  ctx.rule = ("pairs of real observations: KFL vs a Lattice holding the dense kernel (random dyadic parameters, L 2-4, dims "
              "1-4, terms 1-3, units 1-2, clip on/off); pwl_calibration_fn vs PWLCalibration holding the derived parameters; "
              "cdf_fn vs CDF ('mean' / 'none'); ParallelCombination vs column-wise calibrators; Aggregation vs a loop over "
              "ragged rows of different lengths; RTL vs gathering _rtl_structure into its lattices")
  ctx.model("MC_KflDense", "KflDense_q.cfg")
  ctx.exhaustive = True
  rng = np.random.default_rng(ctx.seed + 1414)
  q = ctx.quick
  events = kfl_vs_lattice(tf, tfl, ctx, rng, 40 if q else 600)
  events += c15.pwl_fn_events(tf, tfl, ctx, rng, 64 if q else 1000, with_layer=True)
  events += c15.cdf_events(tf, tfl, ctx, rng, 40 if q else 600, with_fn=True)
  for fn, name in ((parallel_combination, "ParallelCombination"), (aggregation, "Aggregation"), (rtl_gather, "RTL")):
    try:
      events += fn(tf, tfl, ctx, rng, 10 if q else 150)
    except Exception as ex:  # pylint: disable=broad-except
      events.append({"ev": "Raised", "site": {"layer": name}, "exc": repr(ex)[:300], "call": {"subject": name}})
  log("  %d events" % len(events))
  ctx.sample({k: events[0].get(k) for k in ("ev", "what", "a", "b", "tolu")})
  ctx.validate("TraceConditional", events)
  # C15's own contract clauses are evaluated on the shared events too; only the equality clauses belong to C14
  mine = ("FnEqualsLayer", "CdfFnEqualsLayer", "Raised", "Finite")
  ctx.bad = [(e, c) for e, c in ctx.bad if c.startswith("Equal:") or c in mine]
  # non-finite pwl_calibration_fn outputs caused by keypoint segments below float32 resolution are C15's known
  # finding (the function has no value there), not a disagreement between two representations
  skipped = [1 for e, c in ctx.bad if c == "Finite" and e.get("site", {}).get("probe_on_collapsed_keypoint")]
  ctx.bad = [(e, c) for e, c in ctx.bad if not (c == "Finite" and e.get("site", {}).get("probe_on_collapsed_keypoint"))]
  ctx.extra["pwl_fn_nonfinite_sub_resolution_skipped"] = len(skipped)
  # "up to floating-point rounding": with a keypoint segment shorter than ~2e-3 the rounding of (x - keypoint) in either
  # float32 evaluation is amplified by 1 / length beyond the comparison tolerance; such pairs are not compared
  ill = [1 for e, c in ctx.bad if c == "FnEqualsLayer" and e.get("site", {}).get("short_segment")]
  ctx.bad = [(e, c) for e, c in ctx.bad if not (c == "FnEqualsLayer" and e.get("site", {}).get("short_segment"))]
  ctx.extra["pwl_fn_vs_layer_ill_conditioned_skipped"] = len(ill)
  return ctx.finish()


def replay(ctx, path):
  """The cases are regenerated from the seed recorded in the replay file: re-execute and compare."""
  return common.rerun_replay(ctx, path, run)
