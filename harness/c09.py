"""C09 - Units and examples never interact: projections are per-unit, outputs per-row.

spec: Independence.tla (the multi-unit operation as pointwise lift of an uninterpreted per-unit function),
      TraceIndependence.tla (differential trace contract: Multi events must agree with the memo of Single events)
"""
import itertools
import json

import numpy as np

import common
import latcfg
import c04
import c06
import c07
from common import log

DEN = 2 ** 14


def ints(a, den=DEN):
  return [int(round(float(v) * den)) for v in np.asarray(a, dtype=np.float64).reshape(-1)]


class Trace:
  """One trace = one subject (layer/constraint configuration)."""

  def __init__(self, ctx, tr, what, site):
    self.ctx, self.tr, self.what, self.site = ctx, tr, what, site
    self.events = []
    self.seen = set()

  def single(self, key, val):
    k = tuple(key)
    self.events.append({"ev": "Single", "tr": self.tr, "key": list(k), "val": ints(val), "tolu": 6,
                        "site": self.site, "call": {"what": self.what}})
    self.seen.add(k)

  def multi(self, keys, vals, tolu=6):
    if not common.all_finite(np.concatenate([np.asarray(v, dtype=np.float64).reshape(-1) for v in vals])):
      self.events.append({"ev": "NonFinite", "tr": self.tr, "site": self.site, "call": {"what": self.what}})
      return
    self.events.append({"ev": "Multi", "tr": self.tr, "keys": [list(k) for k in keys], "vals": [ints(v) for v in vals],
                        "tolu": tolu, "what": self.what, "site": self.site, "call": {"what": self.what}})
    self.ctx.count(len(keys))


def constraint_traces(ctx, tf, tfl, rng, n_cfg):
  """Weight constraints: column by column = the same constraint on that column alone; permutations."""
  traces = []
  tr = [0]

  def subject(what, site, make_cols, apply):
    t = Trace(ctx, 1000 + len(traces), what, site)
    cols = make_cols()
    for col in cols:
      out = apply(np.stack([col], axis=1))
      t.single(ints(col, 64), out[:, 0])
    U = len(cols)
    combos = list(itertools.permutations(range(U), 2)) + list(itertools.permutations(range(U), 3))[:12]
    rng.shuffle(combos)
    for combo in combos[:10 if ctx.quick else 40]:
      K = np.stack([cols[i] for i in combo], axis=1)
      out = apply(K)
      t.multi([ints(cols[i], 64) for i in combo], [out[:, j] for j in range(len(combo))])
    ctx.nontrivial.add(what + str(len(traces)))
    traces.append(t)

  # Lattice: exactly one unit carries a violation in some multis (reductions over "all axes but the last")
  lat_cfgs = []
  for _ in range(n_cfg):
    c = latcfg.random_cfg(rng, max_rank=3, max_size=3, max_vertices=18)
    if c["mono"].count(1) == 0:
      c["mono"][0] = 1
    lat_cfgs.append(c)
  fixed = latcfg.base([2, 2, 2])
  fixed.update({"mono": [1, 0, 0], "edge": [[1, 3, 1]], "trap": [[1, 2, 1]], "hasMin": True, "hasMax": True,
                "omin": [0, 1], "omax": [2, 1], "iters": 1})
  lat_cfgs.append(fixed)
  for c in lat_cfgs:
    nv = int(np.prod(c["sizes"]))

    def cols(nv=nv, c=c):
      feasible = np.linspace(float(latcfg.frac(c["omin"])), float(latcfg.frac(c["omax"])), nv)
      return [np.round(feasible * 64) / 64, np.round(rng.integers(-128, 129, size=nv)) / 64.0,
              -np.sort(rng.integers(-128, 129, size=nv)) / 64.0, np.zeros(nv)]
    try:
      cons = latcfg.make_constraint(tfl, c)
      subject("LatticeConstraintPerUnit", {"layer": "lattice"}, cols,
              lambda K, cons=cons: cons(tf.constant(K, dtype=tf.float32)).numpy())
      if any(c["mono"]):
        subject("LatticeFinalizePerUnit", {"layer": "lattice"}, cols,
                lambda K, c=c: latcfg.run_finalize_lib(tf, c, K))
    except latcfg.Rejected:
      pass
  for _ in range(n_cfg):
    c = c04.random_cfg(rng, ctx.quick)
    n = len(c["len"]) + 1
    cons = c04.make_constraint(tf, c)
    subject("PwlConstraintPerUnit", {"layer": "pwl"},
            lambda n=n: [rng.integers(-128, 129, size=n) / 64.0 for _ in range(4)],
            lambda K, cons=cons: cons(tf.constant(K, dtype=tf.float32)).numpy())
  # partial orders in which a bucket / weight has several lower AND several upper neighbours (the projection reduces
  # over the neighbours of each node: that reduction must stay inside the unit)
  fan = [{"kind": "cat", "nb": 4, "pairs": [[1, 3], [2, 3]], "hasMin": False, "omin": [0, 1], "hasMax": False, "omax": [1, 1]},
         {"kind": "cat", "nb": 5, "pairs": [[1, 2], [1, 3], [2, 4], [3, 4], [1, 5]], "hasMin": True, "omin": [-1, 1], "hasMax": True,
          "omax": [2, 1]},
         {"kind": "linear", "mono": [1, 1, 1], "mdom": [[1, 2], [1, 3]], "rdom": [], "range": [[1, 1]] * 3, "norm": 0},
         {"kind": "linear", "mono": [1, 1, 1, 0], "mdom": [[1, 3], [2, 3]], "rdom": [], "range": [[1, 1]] * 4, "norm": 1}]
  for c in fan + [c06.random_cfg(rng) for _ in range(n_cfg)]:
    n = c["nb"] if c["kind"] == "cat" else len(c["mono"])
    try:
      cons = c06.cat_constraint(c) if c["kind"] == "cat" else c06.lin_constraint(c)
    except ValueError:
      continue
    # besides random columns: a dead column (all zeros), columns of one sign (clipped to zero / untouched by the sign
    # constraints) and one of the smallest representable entries - the per-column reductions (norms, numerically-zero guards) are what could couple units
    subject("%sConstraintPerUnit" % c["kind"].capitalize(), {"layer": c["kind"]},
            lambda n=n: [rng.integers(-128, 129, size=n) / 64.0, rng.integers(-128, 129, size=n) / 64.0, np.zeros(n),
                         -np.abs(rng.integers(1, 129, size=n)) / 64.0, np.abs(rng.integers(1, 129, size=n)) / 64.0,
                         rng.integers(-1, 2, size=n) / 64.0],
            lambda K, cons=cons: cons(tf.constant(K, dtype=tf.float32)).numpy())
  # KFL: kernel and scale constraints of a layer with several units vs one-unit layers
  for j in range(n_cfg):
    dims = int(rng.integers(1, 4))
    c = {"L": int(rng.integers(2, 4)), "dims": dims, "terms": int(rng.integers(1, 3)),
         "mono": [int(rng.random() < 0.6) for _ in range(dims)], "hasMin": bool(rng.random() < 0.6), "omin": [0, 1],
         "hasMax": bool(rng.random() < 0.6), "omax": [2, 1], "clip": True}
    t = Trace(ctx, 5000 + j, "KflConstraintPerUnit", {"layer": "kfl"})
    nk = c["L"] * dims * c["terms"]
    params = [(rng.integers(-128, 129, size=(c["L"], dims, c["terms"])) / 64.0, rng.integers(-128, 129, size=c["terms"]) / 64.0)
              for _ in range(4)]

    def apply(ps, c=c):
      layer = c07.make_layer(tfl, c, len(ps))
      layer.kernel.assign(c07.to_var(c, np.stack([p[0] for p in ps]).astype(np.float32)))
      layer.scale.assign(np.stack([p[1] for p in ps]).astype(np.float32))
      c07.apply(layer, "kernel")
      c07.apply(layer, "scale")
      W = c07.from_var(c, layer.kernel.numpy(), len(ps))
      S = layer.scale.numpy()
      return [np.concatenate([W[u].reshape(-1), S[u]]) for u in range(len(ps))]
    keyof = lambda p: ints(np.concatenate([p[0].reshape(-1), p[1]]), 64)
    for p in params:
      t.single(keyof(p), apply([p])[0])
    for combo in list(itertools.permutations(range(4), 2))[:8] + list(itertools.permutations(range(4), 3))[:4]:
      t.multi([keyof(params[i]) for i in combo], apply([params[i] for i in combo]))
    ctx.nontrivial.add("kfl" + str(j))
    traces.append(t)
  return traces


def eval_traces(ctx, tf, tfl, rng, n_cfg):
  """Layer outputs: unit u / example b of a (batch x units) call = the one-unit, one-example call."""
  traces = []

  def subject(what, site, make_layer, nparam, xdim, xmaker, units_list=(2, 3), is_int=False):
    t = Trace(ctx, 9000 + len(traces), what, site)
    params = [rng.integers(-64, 65, size=nparam) / 32.0 for _ in range(3)]
    xs = [xmaker() for _ in range(4)]

    def call(ps, X, graph=False):        # X: (B, U, xdim)
      layer = make_layer(len(ps))
      set_params(layer, ps)
      U = len(ps)
      if U == 1:
        inp = X[:, 0, :]
      else:
        inp = X if xdim_is_per_unit(what) else X
      inp = np.asarray(inp)
      if what in ("PwlEval", "PwlMissEval", "CatEval"):
        inp = X[:, :, 0]          # (B, U): one input column per unit
      t_in = tf.constant(inp.astype(np.int32 if is_int else np.float32))
      if graph:
        # traced once with an unknown batch size (what model.fit / serving do): nothing may depend on the static batch
        fn = tf.function(lambda z: layer(z), input_signature=[tf.TensorSpec([None] + list(t_in.shape[1:]), t_in.dtype)])
        y = fn(t_in)
      else:
        y = layer(t_in)
      return np.asarray(y).reshape(X.shape[0], U)

    def xdim_is_per_unit(_):
      return True

    def set_params(layer, ps):
      P = np.stack(ps, axis=1).astype(np.float32)       # (nparam, U)
      if what == "KflEval":
        c = layer._c
        W = np.stack([p[:c["L"] * c["dims"] * c["terms"]].reshape(c["L"], c["dims"], c["terms"]) for p in ps])
        layer.kernel.assign(c07.to_var(c, W.astype(np.float32)))
        layer.scale.assign(np.stack([p[-c["terms"]:] for p in ps]).astype(np.float32))
      elif what == "PwlMissEval":
        layer.kernel.assign(P[:-1])
        layer.missing_output.assign(P[-1:])
      elif what == "LinearEval":
        layer.kernel.assign(P[:-1])
        layer.bias.assign(P[-1] if len(ps) > 1 else np.float32(P[-1, 0]))
      else:
        layer.kernel.assign(P)

    keyof = lambda p, x: ints(p, 32) + ints(x, 32)
    for p in params:
      for x in xs:
        y = call([p], np.asarray(x).reshape(1, 1, -1))
        t.single(keyof(p, x), y[0, 0:1])
    for U in units_list:
      for rep in range(2 if ctx.quick else 6):
        pu = [params[i] for i in rng.integers(0, len(params), size=U)]
        B = int(rng.integers(1, 5))
        Xi = rng.integers(0, len(xs), size=(B, U))
        if what == "PwlMissEval":      # a row in which exactly one unit sees the missing value
          Xi[0, :] = rng.integers(1, len(xs), size=U)
          Xi[0, rep % U] = 0
        X = np.stack([[xs[Xi[b, u]] for u in range(U)] for b in range(B)]).reshape(B, U, -1)
        y = call(pu, X, graph=bool(rep % 2))
        t.multi([keyof(pu[u], xs[Xi[b, u]]) for b in range(B) for u in range(U)],
                [y[b, u:u + 1] for b in range(B) for u in range(U)])
    ctx.nontrivial.add(what + str(len(traces)))
    traces.append(t)

  for _ in range(n_cfg):
    sizes = [int(rng.integers(2, 4)) for _ in range(int(rng.integers(1, 4)))]
    interp = str(rng.choice(["hypercube", "simplex"]))

    def mk(U, sizes=sizes, interp=interp):
      layer = tfl.layers.Lattice(lattice_sizes=sizes, units=U, interpolation=interp)
      layer.build((None, len(sizes)) if U == 1 else (None, U, len(sizes)))
      return layer
    subject("LatticeEval", {"layer": "lattice"}, mk, int(np.prod(sizes)), len(sizes),
            lambda sizes=sizes: [rng.integers(-8, 32 * (s - 1) + 9) / 32.0 for s in sizes])
    kp = np.cumsum(rng.integers(1, 5, size=int(rng.integers(2, 6)))) / 2.0

    def mkp(U, kp=kp):
      layer = tfl.layers.PWLCalibration(input_keypoints=[float(v) for v in kp], units=U)
      layer.build((None, U))
      return layer
    subject("PwlEval", {"layer": "pwl"}, mkp, len(kp), 1, lambda kp=kp: [rng.integers(0, 64 * int(kp[-1] + 1)) / 32.0])
    # imputed missing value: xs[0] is the missing value, so a (batch x units) input has rows where only
    # some of the units see it; missingness is per unit and per example
    miss = float(rng.integers(0, 64 * int(kp[-1] + 1)) / 32.0)
    first = [True]

    def mkpm(U, kp=kp, miss=miss):
      layer = tfl.layers.PWLCalibration(input_keypoints=[float(v) for v in kp], units=U, impute_missing=True,
                                        missing_input_value=miss)
      layer.build((None, U))
      return layer

    def xm(kp=kp, miss=miss, first=first):
      if first[0]:
        first[0] = False
        return [miss]
      return [rng.integers(0, 64 * int(kp[-1] + 1)) / 32.0]
    subject("PwlMissEval", {"layer": "pwl", "missing": True}, mkpm, len(kp) + 1, 1, xm)
    nb = int(rng.integers(2, 6))

    def mkc(U, nb=nb):
      layer = tfl.layers.CategoricalCalibration(num_buckets=nb, units=U)
      layer.build((None, U))
      return layer
    subject("CatEval", {"layer": "cat"}, mkc, nb, 1, lambda nb=nb: [int(rng.integers(0, nb))], is_int=True)
    n = int(rng.integers(1, 5))

    def mkl(U, n=n):
      layer = tfl.layers.Linear(num_input_dims=n, units=U, input_min=[0.0] * n, input_max=[1.5] * n)
      layer.build((None, n) if U == 1 else (None, U, n))
      return layer
    subject("LinearEval", {"layer": "linear"}, mkl, n + 1, n, lambda n=n: list(rng.integers(-32, 97, size=n) / 32.0))
    dims = int(rng.integers(1, 4))
    c = {"L": int(rng.integers(2, 4)), "dims": dims, "terms": int(rng.integers(1, 3)), "mono": [0] * dims,
         "hasMin": False, "omin": [0, 1], "hasMax": False, "omax": [1, 1], "clip": True}

    def mkk(U, c=c):
      layer = c07.make_layer(tfl, c, U)
      layer._c = c
      return layer
    subject("KflEval", {"layer": "kfl"}, mkk, c["L"] * dims * c["terms"] + c["terms"], dims,
            lambda c=c: list(rng.integers(-8, 32 * (c["L"] - 1) + 9, size=c["dims"]) / 32.0))
  return traces


def batch_traces(ctx, tf, tfl, rng, n_cfg):
  """Batch composition / order: CDF layer, functional forms, premade model, Aggregation-free layers."""
  from tensorflow_lattice.python import conditional_cdf, conditional_pwl_calibration
  traces = []

  def subject(what, fn, rows):
    t = Trace(ctx, 20000 + len(traces), what, {"layer": what})
    for r in rows:
      t.single(ints(np.concatenate([np.ravel(a) for a in r]), 64), fn([r])[0])
    for rep in range(3 if ctx.quick else 10):
      sel = list(rng.permutation(len(rows))[:int(rng.integers(2, len(rows) + 1))])
      t.multi([ints(np.concatenate([np.ravel(a) for a in rows[i]]), 64) for i in sel], fn([rows[i] for i in sel]), tolu=8)
    ctx.nontrivial.add(what + str(len(traces)))
    traces.append(t)

  for j in range(n_cfg):
    nin = int(rng.integers(1, 4))
    units = int(rng.choice([1, 2]))
    act = str(rng.choice(["relu6", "sigmoid"]))
    red = str(rng.choice(["mean", "geometric_mean", "none"]))
    layer = tfl.layers.CDF(num_keypoints=int(rng.integers(2, 6)), units=units, activation=act, reduction=red)
    layer.build((None, nin))
    rows = [(rng.integers(-64, 65, size=nin) / 32.0,) for _ in range(5)]
    subject("CdfLayerBatch", lambda rs, layer=layer: [np.ravel(v) for v in
                                                      layer(tf.constant(np.stack([r[0] for r in rs]).astype(np.float32))).numpy()], rows)
    # cdf_fn: per-example parameters travel with the example
    nk = int(rng.integers(2, 5))
    rows = [(rng.integers(-64, 65, size=nin) / 32.0, rng.integers(-64, 65, size=(nin, nk, units)) / 32.0,
             rng.integers(-32, 33, size=(nin, nk, units)) / 32.0) for _ in range(5)]

    def cdf(rs, act=act, red=red, units=units):
      out = conditional_cdf.cdf_fn(
          inputs=tf.constant(np.stack([r[0] for r in rs]).astype(np.float32)),
          location_parameters=tf.constant(np.stack([r[1] for r in rs]).astype(np.float32)),
          scaling_parameters=tf.constant(np.stack([r[2] for r in rs]).astype(np.float32)),
          units=units, activation=act, reduction=red, scaling_exp_transform_multiplier=1.0)
      return [np.ravel(v) for v in out.numpy()]
    subject("CdfFnBatch", cdf, rows)
    nkp = int(rng.integers(2, 5))
    un = int(rng.choice([1, 2]))
    mono = str(rng.choice(["none", "increasing"]))
    rows = [(rng.integers(-16, 49, size=1) / 32.0, rng.integers(-64, 65, size=(un, nkp - 2)) / 32.0,
             rng.integers(-64, 65, size=(un, nkp)) / 32.0) for _ in range(5)]

    def pwl(rs, un=un, mono=mono):
      out = conditional_pwl_calibration.pwl_calibration_fn(
          inputs=tf.constant(np.stack([r[0] for r in rs]).astype(np.float32)),
          keypoint_input_parameters=tf.constant(np.stack([r[1] for r in rs]).astype(np.float32)),
          keypoint_output_parameters=tf.constant(np.stack([r[2] for r in rs]).astype(np.float32)),
          units=un, monotonicity=mono)
      return [np.ravel(v) for v in out.numpy()]
    subject("PwlFnBatch", pwl, rows)
  # a premade model
  try:
    fcs = [tfl.configs.FeatureConfig(name="a", lattice_size=2, monotonicity="increasing", pwl_calibration_num_keypoints=3,
                                     pwl_calibration_input_keypoints=[0.0, 0.5, 1.0]),
           tfl.configs.FeatureConfig(name="b", lattice_size=3, pwl_calibration_num_keypoints=3,
                                     pwl_calibration_input_keypoints=[0.0, 1.0, 2.0])]
    model = tfl.premade.CalibratedLattice(tfl.configs.CalibratedLatticeConfig(feature_configs=fcs, output_min=0.0, output_max=1.0, output_initialization=[0.0, 1.0]))
    for v in model.trainable_variables:
      v.assign(rng.normal(size=v.shape).astype(np.float32))
    rows = [(rng.integers(-16, 81, size=2) / 32.0,) for _ in range(6)]

    def pm(rs):
      X = np.stack([r[0] for r in rs]).astype(np.float32)
      return [np.ravel(v) for v in model([tf.constant(X[:, :1]), tf.constant(X[:, 1:])]).numpy()]
    subject("PremadeModelBatch", pm, rows)
  except Exception as ex:  # pylint: disable=broad-except
    t = Trace(ctx, 29999, "PremadeModelBatch", {"layer": "premade"})
    t.events.append({"ev": "Raised", "tr": 29999, "site": {"layer": "premade"}, "exc": repr(ex)[:300], "call": {}})
    traces.append(t)
  return traces


def run(ctx):
  tf, tfl = common.import_tf()
  ctx.rule = ("one trace per subject (a constraint object, a layer, a functional form or a premade model with fixed "
              "parameters): Single events = one column / one example alone, Multi events = ordered pairs, triples, "
              "permutations and sub-selections of those columns / examples in one call; TLC checks every Multi entry "
              "against the memo of Single observations; non-trivial = distinct subjects")
  ctx.model("MC_Independence", "Indep.cfg")
  ctx.exhaustive = True
  rng = np.random.default_rng(ctx.seed + 909)
  n = 5 if ctx.quick else 40
  traces = constraint_traces(ctx, tf, tfl, rng, n) + eval_traces(ctx, tf, tfl, rng, 3 if ctx.quick else 25) \
      + batch_traces(ctx, tf, tfl, rng, 3 if ctx.quick else 25)
  events = [e for t in traces for e in t.events]
  log("  %d traces, %d events" % (len(traces), len(events)))
  m = [e for e in events if e["ev"] == "Multi"]
  ctx.sample({k: m[0].get(k) for k in ("what", "keys", "vals")})
  ctx.validate("TraceIndependence", events, stateful=True, shards=common.NCPU)
  # a Multi without its Single observations is a harness fault, never a verdict
  mach = [(e, c) for e, c in ctx.bad if c.startswith("MACHINERY")]
  if mach:
    raise common.MachineryError("trace harness emitted Multi events without Single observations: %s" % mach[0][0].get("what"))
  return ctx.finish()


def replay(ctx, path):
  """The cases are regenerated from the seed recorded in the replay file: re-execute and compare."""
  return common.rerun_replay(ctx, path, run)
