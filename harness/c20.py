"""C20 - Linear layer computes the clipped affine function its weights describe.

spec: LinearLayer.tla (LinearFn + consequences as invariants / action properties), MC_LinearLayer.tla,
      TraceLinearLayer.tla (identity on real outputs)
"""
import itertools
import json
from fractions import Fraction

import numpy as np

import common
from common import log
from latcfg import rat, frac

KDEN, XDEN, ODEN = 16, 16, 2 ** 14


def make_layer(tfl, c, units, dtype="float32", shift=0.0):
  n = len(c["mono"])
  lo = [float(frac(c["lo"][i])) + shift if c["hasLo"][i] else None for i in range(n)]
  hi = [float(frac(c["hi"][i])) + shift if c["hasHi"][i] else None for i in range(n)]
  layer = tfl.layers.Linear(num_input_dims=n, units=units, use_bias=c["useBias"],
                            input_min=lo if any(v is not None for v in lo) else None,
                            input_max=hi if any(v is not None for v in hi) else None,
                            **({} if dtype == "float32" else {"dtype": dtype}))
  layer.build((None, n) if units == 1 else (None, units, n))
  return layer


def evaluate(tf, tfl, c, K, B, X, dtype="float32", graph=False, shift=0.0):
  """shift (float64 layers only): bounds and inputs translated by a number that float32 cannot carry next to the bounds;
  the result is translated back (clipping commutes with translation: out(x + s) = out(x) + s * sum(kernel))."""
  return _evaluate(tf, tfl, c, K, B, X, dtype, graph, shift)


def _evaluate(tf, tfl, c, K, B, X, dtype, graph, shift):
  """K: (n, units), B: (units,), X: (batch, n) -> (batch, units)."""
  units = K.shape[1]
  ft = np.float32 if dtype == "float32" else np.float64
  layer = make_layer(tfl, c, units, dtype, shift)
  X = X.astype(np.float64) + shift
  back = shift * K.astype(np.float64).sum(axis=0)[None, :]
  layer.kernel.assign(K.astype(ft))
  if c["useBias"]:
    layer.bias.assign(ft(B[0]) if units == 1 else B.astype(ft))
  fn = layer
  if graph:     # traced once with an unknown batch size, as model.fit / serving do
    spec = tf.TensorSpec([None, X.shape[1]] if units == 1 else [None, units, X.shape[1]], tf.as_dtype(ft))
    fn = tf.function(lambda z: layer(z), input_signature=[spec])
  if units == 1:
    return fn(tf.constant(X.astype(ft))).numpy().reshape(len(X), 1) - back
  Xu = np.repeat(X[:, None, :], units, axis=1)
  return fn(tf.constant(Xu.astype(ft))).numpy() - back


def events_for(c, K, B, X, out, ctx, path):
  evs = []
  for u in range(K.shape[1]):
    for r in range(X.shape[0]):
      call = {"cfg": c, "k": [float(v) for v in K[:, u]], "b": float(B[u]), "x": [float(v) for v in X[r]], "path": path}
      o = float(out[r, u])
      if not common.all_finite([o]):
        evs.append({"ev": "NonFinite", "cfg": c, "site": {"layer": "linear", "path": path}, "call": call})
        continue
      evs.append({"ev": "Eval", "cfg": c, "kden": KDEN, "k": [int(round(float(v) * KDEN)) for v in K[:, u]],
                  "b": int(round(float(B[u]) * KDEN)), "xden": XDEN, "x": [int(round(float(v) * XDEN)) for v in X[r]],
                  "oden": ODEN, "out": int(round(o * ODEN)), "tolu": 4,
                  "site": {"layer": "linear", "path": path}, "call": call})
  ctx.count(K.shape[1] * X.shape[0])
  return evs


def run(ctx):
  tf, tfl = common.import_tf()
  ctx.rule = ("cases = every configuration of the TLC space (bounded-input subsets, bias on/off) x every kernel of the "
              "integer domain x every point of the rational input grid (inside, on and outside the bounds), evaluated by "
              "tfl.layers.Linear with units>1 (kernels stacked as units) and units=1, plus random dyadic cases with up "
              "to 6 inputs; non-trivial = some input is clipped or the kernel is non-zero")
  ctx.model("MC_LinearLayer", "Lin_Q.cfg")
  if not ctx.quick:
    ctx.model("MC_LinearLayer", "Lin_T.cfg", timeout=7200)
  ctx.exhaustive = True
  files = ctx.tlc_cases("GenLinearLayer", "GenLin.cfg", env={"VERIF_TIER": ctx.tier})
  events = []
  for cf in files:
    xg = [float(frac(p)) for p in cf["xgrid"]]
    for j, c in enumerate(cf["cfgs"]):
      n = len(c["mono"])
      K = np.array(list(itertools.product(cf["kvals"], repeat=n)), dtype=np.float32).T
      if ctx.quick:
        K = K[:, (j + ctx.seed) % 2::2]
      B = np.array([(-1.0 if u % 2 else 2.0) for u in range(K.shape[1])], dtype=np.float32)
      X = np.array(list(itertools.product(xg, repeat=n)), dtype=np.float32)
      out = evaluate(tf, tfl, c, K, B, X)
      events += events_for(c, K, B, X, out, ctx, "units>1")
      for u in range(min(2, K.shape[1])):
        o1 = evaluate(tf, tfl, c, K[:, u:u + 1], B[u:u + 1], X)
        events += events_for(c, K[:, u:u + 1], B[u:u + 1], X, o1, ctx, "units=1")
      ctx.nontrivial.add((json.dumps(c, sort_keys=True)))
  log("  %d enumerated Eval events" % len(events))
  ctx.sample({k: events[len(events) // 2].get(k) for k in ("cfg", "k", "b", "x", "out", "oden")})
  rng = np.random.default_rng(ctx.seed + 2020)
  for j in range(60 if ctx.quick else 1500):
    n = int(rng.integers(1, 7))
    hasLo = [bool(rng.random() < 0.5) for _ in range(n)]
    hasHi = [bool(rng.random() < 0.5) for _ in range(n)]
    lo = [Fraction(int(rng.integers(-8, 4)), 4) for _ in range(n)]
    hi = [lo[i] + Fraction(int(rng.integers(0, 12)), 4) for i in range(n)]
    c = {"kind": "linear", "mono": [0] * n, "mdom": [], "rdom": [], "range": [[1, 1]] * n, "norm": 0,
         "hasLo": hasLo, "lo": [rat(v) for v in lo], "hasHi": hasHi, "hi": [rat(v) for v in hi],
         "useBias": bool(rng.random() < 0.7)}
    units = int(rng.choice([1, 2, 3]))
    K = (rng.integers(-64, 65, size=(n, units)) / 16.0).astype(np.float32)
    B = (rng.integers(-64, 65, size=(units,)) / 16.0).astype(np.float32)
    X = (rng.integers(-80, 81, size=(6, n)) / 16.0).astype(np.float32)
    for i in range(n):      # some points exactly on the bounds, and some very far beyond them (clipping must not
      X[0, i] = float(lo[i])  # depend on how far outside the input lies)
      X[1, i] = float(hi[i])
      if hasHi[i]:
        X[2, i] = float(2 ** 20 if j % 2 else 2 ** 26)
      if hasLo[i]:
        X[3, i] = -float(2 ** 20 if j % 2 else 2 ** 26)
    # every fourth layer computes in float64
    f64 = j % 4 == 3
    # half of the float64 layers work at 2^30 (float32 spacing 128 there: bounds like 2^30 + 0.25 need float64)
    shift = float(2 ** 30) if f64 and j % 8 == 7 else 0.0
    if shift:
      X = np.clip(X, -8.0, 8.0)      # the far-out probes stay with the unshifted layers
    out = evaluate(tf, tfl, c, K, B, X, dtype="float64" if f64 else "float32", graph=bool(j % 3 == 1), shift=shift)
    events += events_for(c, K, B, X, out, ctx, ("random64s" if shift else "random64") if f64 else "random")
    ctx.nontrivial.add((json.dumps(c, sort_keys=True)))
  ctx.validate("TraceLinearLayer", events)
  return ctx.finish()


def replay(ctx, path):
  tf, tfl = common.import_tf()
  with open(path) as f:
    rec = json.load(f)
  events = []
  for ev in rec["events"]:
    call = ev["call"]
    c = call["cfg"]
    K = np.array(call["k"], dtype=np.float32).reshape(-1, 1)
    B = np.array([call["b"]], dtype=np.float32)
    X = np.array([call["x"]], dtype=np.float32)
    out = evaluate(tf, tfl, c, K, B, X, dtype="float64" if str(call.get("path", "")).startswith("random64") else "float32",
                   shift=float(2 ** 30) if call.get("path") == "random64s" else 0.0)
    log("replay cfg=%s k=%s b=%s x=%s -> %s" % (c, call["k"], call["b"], call["x"], out.tolist()))
    events += events_for(c, K, B, X, out, ctx, "replay")
  ctx.validate("TraceLinearLayer", events, shards=1)
  return ctx.finish()
