"""C10 - Freshly built layers already satisfy their monotonicity and bound constraints.

spec: InitializerOps.tla (init range, linear initializer, contracts), Initializers.tla (random monotonic initializer
      level by level with every shuffle outcome), TraceInit.tla (real freshly built layers validated by TLC)
"""
import itertools
import json
from fractions import Fraction

import numpy as np

import common
import latcfg
import c07
from common import log
from latcfg import rat, frac

DEN = 2 ** 14


def ints(a, den=DEN):
  return [int(round(float(v) * den)) for v in np.asarray(a, dtype=np.float64).reshape(-1)]


def asserted(tf, layer):
  try:
    layer.assert_constraints(eps=1e-4)
    return "pass"
  except tf.errors.InvalidArgumentError:
    return "fail"


def lattice_events(tf, tfl, ctx, rng, n):
  evs = []
  bounds = [(None, None), (0.0, 2.0), (-1.0, None), (None, 3.0), (None, -2.0), (-3.0, -1.0), (0.5, None)]
  high = [8, 9] if ctx.quick else [7, 8, 9, 10]   # 2^rank lattices: the outer-product helper changes strategy past 7 factors
  for j in range(n + len(high)):
    rank = int(rng.integers(1, 4)) if j < n else high[j - n]
    sizes = [int(rng.integers(2, 5)) for _ in range(rank)] if j < n else [2] * rank
    if j < n and int(np.prod(sizes)) > 40:
      continue
    c = latcfg.base(sizes)
    for d in range(rank):
      r = rng.random()
      if r < 0.5:
        c["mono"][d] = 1
      elif r < 0.7 and sizes[d] >= 3:
        c["uni"][d] = int(rng.choice([-1, 1]))
    juni_dims = []
    if j % 5 == 0:
      free = [d for d in range(rank) if c["mono"][d] == 0 and c["uni"][d] == 0 and sizes[d] >= 3]
      if free:
        juni_dims = free[:2]
        c["juni"] = [[[d + 1 for d in juni_dims], str(rng.choice(["valley", "peak"]))]]
    lo, hi = bounds[j % len(bounds)]
    c["hasMin"], c["hasMax"] = lo is not None, hi is not None
    c["omin"], c["omax"] = rat(Fraction(lo) if lo is not None else 0), rat(Fraction(hi) if hi is not None else 1)
    init = "linear" if (j % 3 or j >= n) else "random"
    units = int(rng.choice([1, 2])) if j < n else 1
    extra = {"kernel_initializer": "linear_initializer" if init == "linear" else "random_monotonic_initializer"}
    try:
      layer = latcfg.make_layer(tfl, c, units, **extra)
    except latcfg.Rejected:
      ctx.extra["rejected_at_construction"] = ctx.extra.get("rejected_at_construction", 0) + 1
      continue
    except Exception as ex:  # pylint: disable=broad-except
      evs.append({"ev": "Raised", "site": {"layer": "lattice"}, "exc": repr(ex)[:300], "call": {"cfg": c, "init": init}})
      continue
    layers = [(layer, init)]
    # the same layer re-created from its own configuration (clone_model, a reloaded architecture) and built afresh
    try:
      import tf_keras
      with tf_keras.utils.custom_object_scope(tfl.premade.get_custom_objects()):
        l2 = type(layer).from_config(layer.get_config())
      l2.build((None, rank) if units == 1 else (None, units, rank))
      layers.append((l2, init))
    except Exception as ex:  # pylint: disable=broad-except
      evs.append({"ev": "Raised", "site": {"layer": "lattice", "path": "from_config"}, "exc": repr(ex)[:300], "call": {"cfg": c, "init": init}})
    cc = json.loads(json.dumps(c))
    # the initializer treats jointly unimodal dimensions as unimodal ones
    for u in cc["juni"]:
      for d in u[0]:
        cc["uni"][d - 1] = 1 if u[1] == "valley" else -1
    plain = not (c["edge"] or c["trap"] or c["mdom"] or c["rdom"] or c["jmono"] or c["juni"] or any(c["uni"]))
    for n2, (lay, _) in enumerate(layers):
      K = lay.kernel.numpy()
      oc = asserted(tf, lay)
      Kc = lay.kernel.constraint(lay.kernel).numpy() if lay.kernel.constraint is not None else K
      for u in range(units):
        evs.append({"ev": "LatInit", "cfg": cc, "init": init, "hasRange": False, "lo": [0, 1], "hi": [1, 1], "den": DEN,
                    "w": ints(K[:, u]), "asserted": oc, "wc": ints(Kc[:, u]), "monoBoundsOnly": bool(plain),
                    "tolu": 8, "site": {"layer": "lattice", "init": init, "from_config": bool(n2)},
                    "call": {"cfg": c, "init": init, "from_config": bool(n2)}})
      ctx.count(units, nontrivial_key=("lat", j, n2))
  return evs


def pwl_events(tf, tfl, ctx, rng, n):
  evs = []
  for j in range(n):
    nk = int(rng.integers(2, 7))
    kp = np.cumsum(np.concatenate([[float(rng.integers(-8, 8)) / 4], rng.integers(1, 9, size=nk - 1) / 4.0]))
    mono = int(rng.choice([-1, 0, 1]))
    lo = Fraction(int(rng.integers(-8, 8)), 4)
    hi = lo + Fraction(int(rng.integers(1, 16)), 4)
    mode = j % 4            # both / min only / max only / none
    omin = float(lo) if mode in (0, 1) else None
    omax = float(hi) if mode in (0, 2) else None
    slopes = bool(j % 2)
    units = int(rng.choice([1, 2]))
    try:
      # every other layer also learns the output for missing inputs: that weight has an initial value and a bound too
      impute = bool((j // 4) % 2)
      layer = tfl.layers.PWLCalibration(input_keypoints=[float(v) for v in kp], units=units, output_min=omin, output_max=omax,
                                        monotonicity=mono, kernel_initializer="equal_slopes" if slopes else "equal_heights",
                                        impute_missing=impute, missing_input_value=-100.0 if impute else None)
      layer.build((None, units))
      if j % 3 == 2:
        # every third layer is re-created from its own configuration (clone_model, a reloaded architecture) and built afresh
        import tf_keras
        with tf_keras.utils.custom_object_scope(tfl.premade.get_custom_objects()):
          layer = type(layer).from_config(layer.get_config())
        layer.build((None, units))
    except ValueError:
      ctx.extra["rejected_at_construction"] = ctx.extra.get("rejected_at_construction", 0) + 1
      continue
    K = layer.kernel.numpy()
    oc = asserted(tf, layer)
    Kc = layer.kernel.constraint(layer.kernel).numpy()
    # init range as convert_all_constraints defines it
    if omin is None and omax is None:
      ilo, ihi = Fraction(0), Fraction(0)
    elif omin is None:
      ilo, ihi = Fraction(omax), Fraction(omax)
    elif omax is None:
      ilo, ihi = Fraction(omin), Fraction(omin)
    else:
      ilo, ihi = Fraction(omin), Fraction(omax)
    lens = [rat(Fraction(float(kp[i + 1] - kp[i]))) for i in range(nk - 1)]
    mo = moc = None
    if impute:
      mo = np.broadcast_to(np.asarray(layer.missing_output.numpy()).reshape(-1), (units,)) if np.asarray(layer.missing_output.numpy()).size == 1 \
          else np.asarray(layer.missing_output.numpy()).reshape(-1)
      mc = layer.missing_output.constraint
      moc_t = mc(layer.missing_output).numpy() if mc is not None else layer.missing_output.numpy()
      moc = np.broadcast_to(np.asarray(moc_t).reshape(-1), (units,)) if np.asarray(moc_t).size == 1 else np.asarray(moc_t).reshape(-1)
    for u in range(units):
      ev = {"ev": "PwlInit", "lens": lens, "lo": rat(ilo), "hi": rat(ihi), "mono": mono, "slopes": slopes, "den": DEN,
            "w": ints(K[:, u]), "asserted": oc, "wc": ints(Kc[:, u]), "tolu": 8, "site": {"layer": "pwl"},
            "call": {"kp": kp.tolist(), "mono": mono, "omin": omin, "omax": omax, "slopes": slopes, "impute": impute}}
      if impute:
        ev.update({"miss": ints([mo[u]])[0], "missc": ints([moc[u]])[0], "hasMin": omin is not None, "hasMax": omax is not None,
                   "omin": rat(Fraction(omin)) if omin is not None else [0, 1], "omax": rat(Fraction(omax)) if omax is not None else [0, 1]})
      evs.append(ev)
    ctx.count(units, nontrivial_key=("pwl", j))
  return evs


def kfl_events(tf, tfl, ctx, rng, n):
  evs = []
  for j in range(n):
    dims = int(rng.integers(1, 4))
    c = {"L": int(rng.integers(2, 5)), "dims": dims, "terms": int(rng.integers(1, 4)),
         "mono": [int(rng.random() < 0.6) for _ in range(dims)], "hasMin": bool(j % 4 in (0, 1)), "omin": rat(Fraction(int(rng.integers(-4, 2)), 2)),
         "hasMax": bool(j % 4 in (0, 2)), "omax": rat(Fraction(int(rng.integers(3, 8)), 2)), "clip": True}
    units = int(rng.choice([1, 2]))
    try:
      tf.random.set_seed(int(rng.integers(0, 10 ** 6)))
      layer = c07.make_layer(tfl, c, units)
    except Exception as ex:  # pylint: disable=broad-except
      evs.append({"ev": "Raised", "site": {"layer": "kfl"}, "exc": repr(ex)[:300], "call": {"cfg": c}})
      continue
    grid = [float(v) / 2 for v in range(0, 2 * (c["L"] - 1) + 1)]
    X = np.array(list(itertools.product(grid, repeat=dims)), dtype=np.float32)
    if len(X) > 40:
      X = X[rng.choice(len(X), size=40, replace=False)]
    out = c07.evaluate(tf, layer, c, units, X)
    oc = asserted(tf, layer)
    c07.apply(layer, "kernel")
    c07.apply(layer, "scale")
    out2 = c07.evaluate(tf, layer, c, units, X)
    for u in range(units):
      evs.append({"ev": "KflInit", "cfg": c, "xden": 2, "xs": [[int(round(float(v) * 2)) for v in x] for x in X], "oden": DEN,
                  "outs": ints(out[:, u]), "outs2": ints(out2[:, u]), "asserted": oc, "tolu": 16, "site": {"layer": "kfl"},
                  "call": {"cfg": c}})
    ctx.count(units, nontrivial_key=("kfl", j))
  return evs


def run(ctx):
  tf, tfl = common.import_tf()
  ctx.rule = ("cases = freshly built real layers over random valid configurations (sizes, units, monotonicities, "
              "unimodalities, joint unimodalities, one-/two-sided and negative bounds, initializer ids) and seeds: Lattice "
              "(linear / random monotonic), PWLCalibration (equal_heights / equal_slopes, decreasing), "
              "KroneckerFactoredLattice; each: initial weights, assert_constraints outcome, weights after the layer's own "
              "constraint; non-trivial = distinct configuration")
  ctx.model("MC_Initializers", "Init_q.cfg")
  ctx.exhaustive = True
  rng = np.random.default_rng(ctx.seed + 1010)
  q = ctx.quick
  events = lattice_events(tf, tfl, ctx, rng, 120 if q else 2000) + pwl_events(tf, tfl, ctx, rng, 80 if q else 1500) \
      + kfl_events(tf, tfl, ctx, rng, 40 if q else 600)
  log("  %d events" % len(events))
  ctx.sample({k: events[0].get(k) for k in ("ev", "cfg", "init", "w", "den", "asserted")})
  ctx.validate("TraceInit", events)
  return ctx.finish()


def replay(ctx, path):
  """The cases are regenerated from the seed recorded in the replay file: re-execute and compare."""
  return common.rerun_replay(ctx, path, run)
