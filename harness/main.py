"""Entry point: ./check <id> [--tier quick|thorough] [--replay path]."""
import argparse
import importlib
import os
import sys
import traceback

sys.path.insert(0, os.path.dirname(os.path.abspath(__file__)))
import common  # noqa: E402


def main():
  ap = argparse.ArgumentParser()
  ap.add_argument("prop")
  ap.add_argument("--tier", default=os.environ.get("VERIF_TIER", "quick"), choices=["quick", "thorough"])
  ap.add_argument("--replay", default=None)
  a = ap.parse_args()
  seed = int(os.environ.get("VERIF_SEED", "0") or 0)
  prop = a.prop.upper()
  try:
    mod = importlib.import_module(prop.lower())
  except ImportError:
    traceback.print_exc()
    print("MACHINERY-ERROR property=%s no harness module" % prop)
    return 2
  ctx = common.Ctx(prop, a.tier, seed, replay=a.replay)
  try:
    if a.replay:
      return mod.replay(ctx, a.replay)
    return mod.run(ctx)
  except common.MachineryError as e:
    print("MACHINERY-ERROR property=%s %s" % (prop, e))
    return 2
  except Exception:  # pylint: disable=broad-except
    traceback.print_exc()
    print("MACHINERY-ERROR property=%s unexpected exception in the harness" % prop)
    return 2


if __name__ == "__main__":
  sys.exit(main())
