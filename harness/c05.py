"""C05 - Calibration layers evaluate exactly the function their weights describe.

spec: CalibratorOps.tla, CalibratorEval.tla (invariants / inheritance), MC_CalibratorEval.tla,
      TraceCalibratorEval.tla (identity on real outputs; learned-interior keypoints contract)
"""
import itertools
import json

import numpy as np

import common
from common import log
from latcfg import frac, rat

KDEN, XDEN, ODEN = 16, 16, 2 ** 14
SITE = {"layer": "calibration"}


def pwl_layer(tfl, kp, units, cyclic=False, **kw):
  layer = tfl.layers.PWLCalibration(input_keypoints=[float(v) for v in kp], units=units, is_cyclic=cyclic, **kw)
  return layer


def fxk(v):
  return int(round(float(v) * KDEN))


def pwl_events(tf, tfl, ctx, kp, cyclic, K, X, mode, rng, xscale=1.0, dtype="float32", xshift=0.0):
  """K: (rows, units), X: (batch,) grid. mode selects input shape / missing handling. xscale (a power of two)
  rescales the input axis: keypoints and inputs are multiplied by it, the function values must not change."""
  # dtype / xshift: a float64 layer on an input axis translated by xshift (exactly representable in float64 only);
  # the trace keeps the untranslated axis, the function values must not change
  ft = np.float32 if dtype == "float32" else np.float64
  tft = tf.float32 if dtype == "float32" else tf.float64
  kp0 = [float(v) * xscale for v in kp]
  kp = [v + xshift for v in kp0]
  X = np.asarray(X, dtype=np.float64) * xscale + xshift
  if dtype != "float32":
    kw_dtype = {"dtype": dtype}
  else:
    kw_dtype = {}
  xden = XDEN / xscale
  units = K.shape[1]
  kw = {}
  missing_x = None
  MO = np.zeros(units, dtype=np.float32)
  if mode in ("missing_value_learned", "missing_value_fixed", "is_missing"):
    kw["impute_missing"] = True
    if mode != "is_missing":
      missing_x = float(X[len(X) // 3])
      kw["missing_input_value"] = missing_x
    if mode == "missing_value_fixed":
      kw["missing_output_value"] = 0.75
      MO[:] = 0.75
  if mode == "split":
    kw["split_outputs"] = True
  layer = pwl_layer(tfl, kp, units, cyclic, **kw, **kw_dtype)
  per_unit = mode in ("per_unit", "split") and units > 1
  try:
    layer.build((None, units if per_unit else 1))
  except ValueError:      # rejected at build time (e.g. a cyclic calibrator with two keypoints): not a C05 case
    ctx.extra["rejected_at_build"] = ctx.extra.get("rejected_at_build", 0) + 1
    return []
  layer.kernel.assign(K.astype(ft))
  if mode in ("missing_value_learned", "is_missing"):
    MO = (rng.integers(-32, 33, size=units) / 16.0).astype(np.float32)
    layer.missing_output.assign(MO.reshape(1, units).astype(ft))
  if missing_x is not None and xscale == 1.0 and dtype == "float32":
    # the float32 neighbours of the missing value are ordinary inputs (only equality means "missing")
    m32 = np.float32(missing_x)
    X = np.concatenate([X, [float(np.nextafter(m32, np.float32(np.inf))), float(np.nextafter(m32, np.float32(-np.inf))),
                            float(m32) + 4e-7, float(m32) - 4e-7]])
  if per_unit:
    Xin = np.stack([np.roll(X, u) for u in range(units)], axis=1).astype(ft)
  else:
    Xin = X.reshape(-1, 1).astype(ft)
  miss = np.zeros_like(Xin)
  if mode == "is_missing":
    miss = (rng.random(Xin.shape) < 0.3).astype(ft)
    out = layer([tf.constant(Xin, dtype=tft), tf.constant(miss, dtype=tft)])
  else:
    out = layer(tf.constant(Xin, dtype=tft))
    if missing_x is not None:
      miss = (Xin == ft(missing_x)).astype(ft)
  if isinstance(out, list):
    out = np.concatenate([o.numpy() for o in out], axis=1)
  else:
    out = out.numpy()
  evs = []
  kpr = [rat(v) for v in kp0]
  for u in range(units):
    kints = [fxk(v) for v in K[:, u]]
    for r in range(len(X)):
      xv = float(Xin[r, u if per_unit else 0]) - xshift
      m = bool(miss[r, u if per_unit else 0] > 0)
      call = {"kp": [float(v) for v in kp], "cyclic": cyclic, "k": [float(v) for v in K[:, u]], "x": xv + xshift, "mode": mode,
              "dtype": dtype, "xshift": xshift}
      if not common.all_finite([out[r, u]]):
        evs.append({"ev": "NonFinite", "site": SITE, "call": call})
        continue
      evs.append({"ev": "Pwl", "kp": kpr, "cyclic": cyclic, "kden": KDEN, "k": kints, "xden": int(xden) if xden >= 1 else 1,
                  "x": int(round(xv * xden)) if xden >= 1 else int(round(xv)), "missing": m, "mo": fxk(MO[u]), "oden": ODEN,
                  "out": int(round(float(out[r, u]) * ODEN)), "tolu": 6, "site": SITE, "call": call})
  # reported keypoints
  ko = layer.keypoints_outputs().numpy()
  ki = layer.keypoints_inputs().numpy()
  for u in range(units):
    evs.append({"ev": "KpOut", "kp": kpr, "cyclic": cyclic, "kden": KDEN, "k": [fxk(v) for v in K[:, u]], "oden": ODEN,
                "outs": [int(round(float(v) * ODEN)) for v in ko[:, u]], "tolu": 6, "site": SITE,
                "call": {"kp": [float(v) for v in kp], "k": [float(v) for v in K[:, u]], "mode": "keypoints_outputs"}})
    evs.append({"ev": "KpIn", "kp": kpr, "xden": int(xden) if xden >= 1 else 1,
                "ins": [int(round((float(v) - xshift) * xden)) if xden >= 1 else int(round(float(v) - xshift)) for v in ki[:, u]],
                "site": SITE, "call": {"kp": [float(v) for v in kp], "mode": "keypoints_inputs"}})
  ctx.count(units * len(X))
  return evs


def cat_events(tf, tfl, ctx, nb, K, default, split):
  units = K.shape[1]
  layer = tfl.layers.CategoricalCalibration(num_buckets=nb, units=units, default_input_value=default,
                                            split_outputs=split)
  layer.build((None, units))
  layer.kernel.assign(K.astype(np.float32))
  idxs = list(range(nb)) + ([default] if default is not None and not 0 <= default < nb else [])
  Xin = np.stack([np.roll(np.array(idxs), u) for u in range(units)], axis=1).astype(np.int32)
  out = layer(tf.constant(Xin))
  if isinstance(out, list):
    out = np.concatenate([o.numpy() for o in out], axis=1)
  else:
    out = out.numpy()
  evs = []
  for u in range(units):
    for r in range(len(idxs)):
      evs.append({"ev": "Cat", "kden": KDEN, "k": [fxk(v) for v in K[:, u]], "idx": int(Xin[r, u]),
                  "hasDefault": default is not None, "default": int(default) if default is not None else 0,
                  "oden": ODEN, "out": int(round(float(out[r, u]) * ODEN)), "tolu": 4, "site": SITE,
                  "call": {"nb": nb, "k": [float(v) for v in K[:, u]], "idx": int(Xin[r, u]), "default": default}})
  ctx.count(units * len(idxs))
  return evs


def learned_events(tf, tfl, ctx, rng, n):
  evs = []
  for j in range(n):
    nk = int(rng.integers(3, 7))
    lo = float(rng.integers(-8, 8)) / 4.0
    hi = lo + float(rng.integers(1, 40)) / 4.0
    kp = np.linspace(lo, hi, nk)
    units = int(rng.choice([1, 2, 3]))
    layer = tfl.layers.PWLCalibration(input_keypoints=[float(v) for v in kp], units=units,
                                      input_keypoints_type="learned_interior")
    layer.build((None, units))
    big = 60.0 if j % 5 else 1000.0
    logits = rng.uniform(-big, big, size=(units, nk - 1)).astype(np.float32)
    if j % 4 == 0:
      logits = rng.uniform(-3, 3, size=(units, nk - 1)).astype(np.float32)
    if j % 5 == 1:
      # large common offset, small spread: the softmax is perfectly well conditioned (it is shift invariant), so
      # the keypoints must be finite, strictly ordered and the function must pass through them - an
      # implementation that exponentiates the raw logits overflows (>= 89) or underflows (<= -104) here
      off = rng.choice([-1000.0, -150.0, -104.0, 89.0, 95.0, 150.0, 1000.0], size=(units, 1))
      logits = (off + rng.uniform(-3, 3, size=(units, nk - 1))).astype(np.float32)
    layer.interpolation_logits.assign(logits)
    K = (rng.integers(-32, 33, size=(nk, units)) / 16.0).astype(np.float32)
    layer.kernel.assign(K)
    ki = layer.keypoints_inputs().numpy()      # (nk, units)
    ko = layer.keypoints_outputs().numpy()
    fo = layer(tf.constant(ki.astype(np.float32))).numpy()     # per-unit inputs = reported keypoints
    xden = 2 ** 14
    # float32 softmax underflow: with a logit spread above ~80 some lengths are exactly 0 (documented limit)
    spread = float((logits.max(axis=1) - logits.min(axis=1)).max())
    for u in range(units):
      spread = float(logits[u].max() - logits[u].min())
      vals = list(ki[:, u]) + list(ko[:, u]) + list(fo[:, u])
      call = {"kp": [float(v) for v in kp], "logits": [float(v) for v in logits[u]], "mode": "learned_interior"}
      if not common.all_finite(vals):
        # 0/0 exactly at keypoints that coincide in float32: the documented floating-point limit, recorded only
        spread_u = float(logits[u].max() - logits[u].min())
        degenerate = bool(np.any(np.diff(ki[:, u]) == 0)) and spread_u > 80
        if degenerate:
          ctx.extra["float32_degenerate_keypoints"] = ctx.extra.get("float32_degenerate_keypoints", 0) + 1
        else:
          evs.append({"ev": "NonFinite", "site": {"layer": "calibration"}, "call": call})
        continue
      evs.append({"ev": "Learned", "lo": rat(lo), "hi": rat(hi), "xden": xden,
                  "ins": [int(round(float(v) * xden)) for v in ki[:, u]], "oden": ODEN,
                  "kouts": [int(round(float(v) * ODEN)) for v in ko[:, u]],
                  "fouts": [int(round(float(v) * ODEN)) for v in fo[:, u]], "strict": bool(spread < 12), "sep": 64,
                  "endtol": max(4, int(xden * 1e-5 * max(1.0, abs(hi)) * 8)), "tolu": max(8, int(ODEN * 4e-3)),
                  "site": {"layer": "calibration", "softmax_underflow": spread > 80}, "call": call})
    ctx.count(units, nontrivial_key=("learned", j))
  return evs


def run(ctx):
  tf, tfl = common.import_tf()
  ctx.rule = ("cases = every keypoint vector of the TLC set x kernels of the integer domain (stacked as units) x every "
              "point of the quarter grid (on keypoints, between, far outside, equal to the missing value), for single-"
              "column and per-unit inputs, split_outputs, cyclic, the three missing-value modes; every bucket index and "
              "default value for categorical; learned-interior keypoints for random logits up to +-60 (a few +-1000); "
              "non-trivial = distinct (keypoints, kernel, mode)")
  ctx.model("MC_CalibratorEval", "Cal_q.cfg" if ctx.quick else "Cal_t.cfg", timeout=7200)
  ctx.exhaustive = True
  files = ctx.tlc_cases("GenCalibratorEval", "GenCal.cfg", env={"VERIF_TIER": ctx.tier})
  rng = np.random.default_rng(ctx.seed + 505)
  events = []
  modes = ["single", "per_unit", "split", "missing_value_learned", "missing_value_fixed", "is_missing"]
  for cf in files:
    xg = np.array([float(frac(p)) for p in cf["xgrid"]], dtype=np.float32)
    for kp in cf["kps"]:
      for cyclic in (False, True):
        rows = len(kp) - (1 if cyclic else 0)
        allk = np.array(list(itertools.product(cf["kvals"], repeat=rows)), dtype=np.float32)
        for mi, mode in enumerate(modes):
          pick = rng.choice(len(allk), size=min(len(allk), 6 if ctx.quick else 40), replace=False)
          K = allk[pick].T
          try:
            events += pwl_events(tf, tfl, ctx, kp, cyclic, K, xg, mode, rng)
            ctx.nontrivial.add((str(kp), cyclic, mode))
          except Exception as ex:  # pylint: disable=broad-except
            events.append({"ev": "Raised", "site": SITE, "exc": repr(ex)[:300],
                           "call": {"kp": kp, "cyclic": cyclic, "mode": mode}})
  # the same function on a rescaled input axis (keypoint spacings of 2^-26 and 2^20 instead of 1..3): the layer
  # divides by the segment lengths, so absolute thresholds on them would show here
  for xscale in (2.0 ** -26, 2.0 ** 20):
    for kp, cyclic in (([0, 1, 3, 4], False), ([0, 2, 3], True), ([1, 2, 4, 5, 8], False)):
      nk = len(kp) - (1 if cyclic else 0)
      K = (rng.integers(-32, 33, size=(nk, 2)) / 16.0).astype(np.float32)
      xg = np.array(sorted({v for k0 in kp for v in (k0, k0 + 0.5, k0 - 0.25)} | {kp[0] - 3.0, kp[-1] + 2.0}))
      try:
        events += pwl_events(tf, tfl, ctx, kp, cyclic, K, xg, "single", rng, xscale=xscale)
        ctx.nontrivial.add((str(kp), cyclic, "xscale", xscale))
      except Exception as ex:  # pylint: disable=broad-except
        events.append({"ev": "Raised", "site": SITE, "exc": repr(ex)[:300], "call": {"kp": kp, "cyclic": cyclic, "xscale": xscale}})
  # float64 layers: the same functions on an input axis translated by an offset that only float64 can carry
  # (timestamps); every mode, cyclic or not
  for j, xshift in enumerate((0.0, 1.6e9 + 1800.0, -(2.0 ** 40) - 0.5, 2.0 ** 33 + 0.25)):
    for kp, cyclic in (([0, 1, 3, 4], False), ([0, 2, 3, 5], True), ([1, 2, 4, 5, 8], False)):
      nk = len(kp) - (1 if cyclic else 0)
      K = (rng.integers(-32, 33, size=(nk, 2)) / 16.0).astype(np.float32)
      xg = np.array(sorted({v for k0 in kp for v in (k0, k0 + 0.5, k0 - 0.25)} | {kp[0] - 3.0, kp[-1] + 2.0}))
      mode = modes[(j * 3 + len(kp)) % len(modes)]
      try:
        events += pwl_events(tf, tfl, ctx, kp, cyclic, K, xg, mode, rng, dtype="float64", xshift=xshift)
        ctx.nontrivial.add((str(kp), cyclic, "float64", xshift))
      except Exception as ex:  # pylint: disable=broad-except
        events.append({"ev": "Raised", "site": SITE, "exc": repr(ex)[:300],
                       "call": {"kp": kp, "cyclic": cyclic, "dtype": "float64", "xshift": xshift, "mode": mode}})
  log("  %d PWL events" % len(events))
  ctx.sample({k: events[len(events) // 2].get(k) for k in ("ev", "kp", "cyclic", "k", "x", "missing", "out", "oden")})
  cevents = []
  for nb in (2, 3, 4, 6):
    for default in (None, -1, 0, nb - 1, 7):
      for split in (False, True):
        units = int(rng.choice([1, 2, 3]))
        K = (rng.integers(-32, 33, size=(nb, units)) / 16.0).astype(np.float32)
        try:
          cevents += cat_events(tf, tfl, ctx, nb, K, default, split)
          ctx.nontrivial.add(("cat", nb, default, split))
        except Exception as ex:  # pylint: disable=broad-except
          cevents.append({"ev": "Raised", "site": SITE, "exc": repr(ex)[:300], "call": {"nb": nb, "default": default}})
  levents = learned_events(tf, tfl, ctx, rng, 30 if ctx.quick else 400)
  ctx.validate("TraceCalibratorEval", events + cevents + levents)
  return ctx.finish()


def replay(ctx, path):
  """The cases are regenerated from the seed recorded in the replay file: re-execute and compare."""
  return common.rerun_replay(ctx, path, run)
