"""C06 - Linear/categorical weight constraints enforce signs, orderings, dominance, norm.

spec: PartialOrderOps.tla, PartialOrderProject.tla, MC_PartialOrder.tla, TracePartialOrder.tla
"""
import itertools
import json
from fractions import Fraction

import numpy as np

import common
from common import log
from latcfg import rat, frac


def grid(vals, n):
  return np.array(list(itertools.product(vals, repeat=n)), dtype=np.float32).T


_SPELL = [0]
_NAMES = {1: "increasing", -1: "decreasing", 0: "none"}


def spelled(mono):
  """The same monotonicity vector in one of four spellings, in rotation: integers, strings, an integer first and
  strings after it, a string first and integers after it (every spelling configures the same constraint)."""
  k = _SPELL[0] % 4
  _SPELL[0] += 1
  if k == 0:
    return list(mono)
  if k == 1:
    return [_NAMES[m] for m in mono]
  if k == 2:
    return [mono[0]] + [_NAMES[m] for m in mono[1:]]
  return [_NAMES[mono[0]]] + list(mono[1:])


def lin_constraint(c):
  from tensorflow_lattice.python import linear_layer
  n = len(c["mono"])
  z = lambda ps: [(p[0] - 1, p[1] - 1) for p in ps] or None
  rng = [float(frac(r)) for r in c["range"]]
  use_bounds = bool(c["rdom"]) or c.get("bounds_all", False)
  return linear_layer.LinearConstraints(
      monotonicities=spelled(c["mono"]), monotonic_dominances=z(c["mdom"]), range_dominances=z(c["rdom"]),
      input_min=[c.get("lo", 0.0)] * n if use_bounds else None,
      input_max=[c.get("lo", 0.0) + r for r in rng] if use_bounds else None,
      normalization_order=c["norm"] or None)


def cat_constraint(c):
  from tensorflow_lattice.python import categorical_calibration_layer as ccl
  return ccl.CategoricalCalibrationConstraints(
      output_min=float(frac(c["omin"])) if c["hasMin"] else None,
      output_max=float(frac(c["omax"])) if c["hasMax"] else None,
      monotonicities=[(p[0] - 1, p[1] - 1) for p in c["pairs"]] or None)


def run_constraint(tf, c, K):
  cons = cat_constraint(c) if c["kind"] == "cat" else lin_constraint(c)
  return cons(tf.constant(K, dtype=tf.float32)).numpy()


def run_layer(tf, tfl, c, K):
  units = K.shape[1]
  if c["kind"] == "cat":
    layer = tfl.layers.CategoricalCalibration(
        num_buckets=c["nb"], units=units, output_min=float(frac(c["omin"])) if c["hasMin"] else None,
        output_max=float(frac(c["omax"])) if c["hasMax"] else None,
        monotonicities=[(p[0] - 1, p[1] - 1) for p in c["pairs"]] or None)
    layer.build((None, units))
  else:
    n = len(c["mono"])
    z = lambda ps: [(p[0] - 1, p[1] - 1) for p in ps] or None
    rng = [float(frac(r)) for r in c["range"]]
    use_bounds = bool(c["rdom"])
    layer = tfl.layers.Linear(
        num_input_dims=n, units=units, monotonicities=spelled(c["mono"]), monotonic_dominances=z(c["mdom"]),
        range_dominances=z(c["rdom"]), input_min=[0.0] * n if use_bounds else None,
        input_max=rng if use_bounds else None, normalization_order=c["norm"] or None)
    layer.build((None, n) if units == 1 else (None, units, n))
  layer.kernel.assign(K.astype(np.float32))
  if layer.kernel.constraint is not None:      # a layer without constraints has no constraint object
    layer.kernel.assign(layer.kernel.constraint(layer.kernel))
  return layer.kernel.numpy()


def site(c, path):
  return {"layer": c["kind"], "path": path}


def events_for(c, K, out, path, exact, ctx, tolu=32):
  evs = []
  for u in range(K.shape[1]):
    col0, col = K[:, u], out[:, u]
    call = {"path": path, "cfg": c, "w0": [float(v) for v in col0]}
    if not common.all_finite(col):
      evs.append({"ev": "NonFinite", "cfg": c, "site": site(c, path), "call": call})
      continue
    bits = 21
    if c["kind"] == "linear" and c["norm"] == 2:
      bits = 12
    e = max(0, common.fx_scale(list(col0) + list(col), bits=bits, max_e=12 if bits == 12 else 20))
    ev = {"ev": "Constrain", "cfg": c, "den": 2 ** e, "tolu": tolu if bits == 21 else 2,
          "w0": [common.fx(v, e) for v in col0], "w": [common.fx(v, e) for v in col],
          "sg": [int(np.sign(v)) for v in col], "exact": bool(exact), "site": site(c, path), "call": call}
    if bits == 12:
      ev["sqtol"] = int(2 ** (2 * e) * 0.01)
    evs.append(ev)
    ctx.count(1, nontrivial_key=(json.dumps(c, sort_keys=True), tuple(col0), path)
              if not np.allclose(col0, col, atol=1e-7) else None)
  return evs


def random_dag(rng, n, p=0.4):
  perm = rng.permutation(n) + 1
  pairs = []
  for a in range(n):
    for b in range(a + 1, n):
      if rng.random() < p:
        pairs.append([int(perm[a]), int(perm[b])])
  rng.shuffle(pairs)
  return pairs


def random_cfg(rng):
  if rng.random() < 0.5:
    nb = int(rng.integers(2, 9))
    lo = Fraction(int(rng.integers(-8, 8)), 4)
    hi = lo + Fraction(int(rng.integers(0, 16)), 4)
    b = rng.random()
    return {"kind": "cat", "nb": nb, "pairs": random_dag(rng, nb), "hasMin": bool(b < 0.5), "omin": rat(lo),
            "hasMax": bool(0.25 < b < 0.75), "omax": rat(hi)}
  n = int(rng.integers(1, 9))
  mono = [int(rng.choice([-1, 0, 1, 1])) for _ in range(n)]
  inc = [i + 1 for i in range(n) if mono[i] == 1]
  dec = [i + 1 for i in range(n) if mono[i] == -1]
  rng.shuffle(inc)
  half = len(inc) // 2 if rng.random() < 0.5 else len(inc)
  md_nodes, rd_nodes = inc[:half], inc[half:]

  def dag_on(nodes):
    if len(nodes) < 2:
      return []
    # pairs (dominant, weak): reversed pairs must be acyclic: any order-respecting choice is
    d = random_dag(rng, len(nodes))
    return [[nodes[a - 1], nodes[b - 1]] for a, b in d]
  mdom = dag_on(md_nodes) if rng.random() < 0.6 else []
  rdom = (dag_on(rd_nodes) if rng.random() < 0.5 else dag_on(dec)) if rng.random() < 0.6 else []
  rngs = [rat(Fraction(int(rng.integers(1, 17)), 4)) for _ in range(n)]
  return {"kind": "linear", "mono": mono, "mdom": mdom, "rdom": rdom, "range": rngs,
          "norm": int(rng.choice([0, 1, 2]))}


def random_weights(rng, n, units):
  cols = []
  for _ in range(units):
    k = int(rng.integers(0, 6))
    if k == 0:
      col = rng.integers(-64, 65, size=n) / 16.0
    elif k == 1:
      col = rng.choice([0.0, 0.0, 1.0, -1.0, 0.5], size=n)
    elif k == 2:
      col = np.zeros(n)
    elif k == 3:
      col = rng.integers(-64, 65, size=n) / float(2 ** 18)
    elif k == 4:
      col = rng.integers(-64, 65, size=n) * 1024.0
    else:
      col = np.sort(rng.integers(0, 33, size=n)) / 8.0
    cols.append(col)
  return np.stack(cols, axis=1).astype(np.float32)


def run(ctx):
  tf, tfl = common.import_tf()
  ctx.rule = ("cases = every valid configuration of the TLC spaces (all acyclic pair sets on 3 (quick) / 4 (thorough) "
              "nodes for categorical orderings and both dominances, sign patterns, ranges, L1 norm) x every integer "
              "weight vector of the domain through the constraint objects and layers, plus seeded random DAGs on up "
              "to 8 nodes with dyadic weights and L2 normalisation; non-trivial = the constraint changed the weights")
  for m in (["PO_Q.cfg"] if ctx.quick else ["PO_T1.cfg", "PO_T2.cfg", "PO_T3.cfg"]):
    ctx.model("MC_PartialOrder", m, timeout=10800)
  ctx.exhaustive = True
  files = ctx.tlc_cases("GenPartialOrder", "GenPO.cfg", env={"VERIF_TIER": ctx.tier})
  events = []
  for cf in files:
    for j, c in enumerate(cf["cfgs"]):
      n = c["nb"] if c["kind"] == "cat" else len(c["mono"])
      K = grid(cf["vals"], n)
      try:
        out = run_constraint(tf, c, K)
        events += events_for(c, K, out, "constraint", True, ctx)
        if (j + ctx.seed) % 5 == 0:
          Ks = K[:, ::7]
          events += events_for(c, Ks, run_layer(tf, tfl, c, Ks), "layer", True, ctx)
      except Exception as ex:  # pylint: disable=broad-except
        events.append({"ev": "Raised", "cfg": c, "site": site(c, "constraint"), "exc": repr(ex)[:300],
                       "call": {"path": "constraint", "cfg": c}})
  log("  replayed %d enumerated events" % len(events))
  ctx.sample({k: events[len(events) // 2].get(k) for k in ("cfg", "w0", "w", "den")})
  rng = np.random.default_rng(ctx.seed + 606)
  revents = []
  for j in range(150 if ctx.quick else 3000):
    c = random_cfg(rng)
    n = c["nb"] if c["kind"] == "cat" else len(c["mono"])
    K = random_weights(rng, n, 8)
    path = "layer" if j % 3 == 0 else "constraint"
    try:
      out = run_layer(tf, tfl, c, K) if path == "layer" else run_constraint(tf, c, K)
      exact = float(np.abs(K).max()) < 70 and float(np.abs(K[K != 0]).min(initial=1.0)) >= 1 / 16
      revents += events_for(c, K, out, path, exact, ctx)
    except ValueError as ex:
      ctx.extra["rejected_at_construction"] = ctx.extra.get("rejected_at_construction", 0) + 1
      if "ircular" in str(ex):
        revents.append({"ev": "Raised", "cfg": c, "site": site(c, path), "exc": repr(ex)[:300],
                        "call": {"path": path, "cfg": c}})
    except Exception as ex:  # pylint: disable=broad-except
      revents.append({"ev": "Raised", "cfg": c, "site": site(c, path), "exc": repr(ex)[:300],
                      "call": {"path": path, "cfg": c}})
  if revents:
    ctx.sample({"random": {k: revents[0].get(k) for k in ("cfg", "w0", "w", "den")}})
  ctx.validate("TracePartialOrder", events + revents)
  return ctx.finish()


def replay(ctx, path):
  tf, tfl = common.import_tf()
  with open(path) as f:
    rec = json.load(f)
  events = []
  for ev in rec["events"]:
    call = ev["call"]
    c = call["cfg"]
    K = np.array(call["w0"], dtype=np.float32).reshape(-1, 1)
    out = run_layer(tf, tfl, c, K) if call["path"] == "layer" else run_constraint(tf, c, K)
    log("replay %s cfg=%s w0=%s -> %s" % (call["path"], c, call["w0"], out[:, 0].tolist()))
    events += events_for(c, K, out, call["path"], ev.get("exact", False), ctx)
  ctx.validate("TracePartialOrder", events, shards=1)
  return ctx.finish()
