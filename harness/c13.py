"""C13 - Regularizers compute the documented Laplacian/torsion/Hessian/wrinkle penalties.

spec: Regularizers.tla (the documented sums), RegularizerProps.tla (algebraic clauses model-checked),
      TraceRegularizers.tla (identity on real regularizer values)
"""
import itertools
import json
from fractions import Fraction

import numpy as np

import common
from common import log
from latcfg import rat

KDEN, ODEN = 8, 2 ** 12
SITE = {"layer": "regularizer"}


def amounts(rng, rank):
  """Scalar or per-dimension amounts (dyadic, zeros in some dimensions)."""
  kind = int(rng.integers(0, 4))
  if kind == 0:
    return Fraction(0), None
  if kind == 1:
    a = Fraction(int(rng.integers(1, 9)), 4)
    return a, None
  lst = [Fraction(int(rng.integers(0, 5)), 2) for _ in range(rank)]
  if kind == 3 and rank > 1:
    lst[int(rng.integers(0, rank))] = Fraction(0)
  return None, lst


def py(a, lst):
  return float(a) if lst is None else [float(v) for v in lst]


def lattice_events(tf, ctx, rng, n):
  from tensorflow_lattice.python import lattice_layer
  shapes = [[2, 3], [3, 2, 2], [2, 3, 2], [2, 2, 2, 2], [2, 2], [4], [3, 3]]
  evs = []
  for j in range(n):
    sizes = shapes[j % len(shapes)]
    rank, nv = len(sizes), int(np.prod(sizes))
    units = int(rng.choice([1, 2]))
    K = (rng.integers(-16, 17, size=(nv, units)) / float(KDEN)).astype(np.float32)
    if j % 7 == 0:
      K[:] = K[0]          # constant kernel
    a1, l1 = amounts(rng, rank)
    a2, l2 = amounts(rng, rank)
    pairs = [(i, k) for i in range(rank) for k in range(i + 1, rank)]
    for reg in ("laplacian", "torsion"):
      cls = lattice_layer.LaplacianRegularizer if reg == "laplacian" else lattice_layer.TorsionRegularizer
      try:
        val = float(cls(lattice_sizes=sizes, l1=py(a1, l1), l2=py(a2, l2))(tf.constant(K)))
      except Exception as ex:  # pylint: disable=broad-except
        evs.append({"ev": "Raised", "site": SITE, "exc": repr(ex)[:300], "call": {"reg": reg, "sizes": sizes}})
        continue
      if reg == "laplacian":
        e1 = [rat(a1 if l1 is None else l1[d]) for d in range(rank)]
        e2 = [rat(a2 if l2 is None else l2[d]) for d in range(rank)]
      else:
        e1 = [rat(a1 if l1 is None else l1[i] * l1[k]) for i, k in pairs]
        e2 = [rat(a2 if l2 is None else l2[i] * l2[k]) for i, k in pairs]
      if not common.all_finite([val]):
        evs.append({"ev": "NonFinite", "site": SITE, "call": {"reg": reg, "sizes": sizes}})
        continue
      evs.append({"ev": "Lat", "reg": reg, "sizes": sizes, "l1": e1, "l2": e2, "kden": KDEN,
                  "cols": [[int(round(float(v) * KDEN)) for v in K[:, u]] for u in range(units)], "oden": ODEN,
                  "out": int(round(val * ODEN)), "tolu": max(4, int(abs(val) * ODEN * 2e-5) + 4), "site": SITE,
                  "call": {"reg": reg, "sizes": sizes, "l1": py(a1, l1), "l2": py(a2, l2), "kernel": K.tolist()}})
      ctx.count(1, nontrivial_key=("lat", reg, j))
  return evs


def pwl_events(tf, ctx, rng, n):
  from tensorflow_lattice.python import pwl_calibration_layer as pl
  classes = {"laplacian": pl.LaplacianRegularizer, "hessian": pl.HessianRegularizer, "wrinkle": pl.WrinkleRegularizer}
  evs = []
  for j in range(n):
    rows = int(rng.integers(2, 7))
    units = int(rng.choice([1, 2]))
    cyclic = bool(j % 2)
    K = (rng.integers(-16, 17, size=(rows, units)) / float(KDEN)).astype(np.float32)
    if j % 5 == 0:        # outputs linear / quadratic in the index
      idx = np.arange(rows, dtype=np.float64)
      out = idx * 0.5 if j % 10 == 0 else idx * idx / 4.0
      K = np.repeat(np.concatenate([[out[0]], np.diff(out)])[:, None], units, axis=1).astype(np.float32)
    a1 = Fraction(int(rng.integers(0, 9)), 4)
    a2 = Fraction(int(rng.integers(0, 9)), 4)
    for reg, cls in classes.items():
      try:
        val = float(cls(l1=float(a1), l2=float(a2), is_cyclic=cyclic)(tf.constant(K)))
      except Exception as ex:  # pylint: disable=broad-except
        evs.append({"ev": "Raised", "site": SITE, "exc": repr(ex)[:300], "call": {"reg": reg, "rows": rows, "cyclic": cyclic}})
        continue
      evs.append({"ev": "Pwl", "reg": reg, "cyclic": cyclic, "l1": rat(a1), "l2": rat(a2), "kden": KDEN,
                  "cols": [[int(round(float(v) * KDEN)) for v in K[:, u]] for u in range(units)], "oden": ODEN,
                  "out": int(round(val * ODEN)), "tolu": max(4, int(abs(val) * ODEN * 2e-5) + 4), "site": SITE,
                  "call": {"reg": reg, "cyclic": cyclic, "l1": float(a1), "l2": float(a2), "kernel": K.tolist()}})
      ctx.count(1, nontrivial_key=("pwl", reg, j))
  return evs


def layer_path_events(tf, tfl, ctx, rng):
  """The same penalties reached through the layers' kernel_regularizer=("name", l1, l2) argument."""
  evs = []
  sizes = [2, 3, 2]
  layer = tfl.layers.Lattice(lattice_sizes=sizes, kernel_regularizer=[("torsion", 0.5, 0.25), ("laplacian", [0.5, 0.0, 1.0], 0.5)])
  layer.build((None, 3))
  K = (rng.integers(-16, 17, size=(12, 1)) / float(KDEN)).astype(np.float32)
  layer.kernel.assign(K)
  losses = [float(v) for v in layer.losses]
  total = float(sum(losses))
  pairs = [(0, 1), (0, 2), (1, 2)]
  # total = torsion(0.5, 0.25) + laplacian([0.5, 0, 1], 0.5): checked as two events on the parts
  from tensorflow_lattice.python import lattice_layer
  parts = {"torsion": float(lattice_layer.TorsionRegularizer(sizes, 0.5, 0.25)(layer.kernel)),
           "laplacian": float(lattice_layer.LaplacianRegularizer(sizes, [0.5, 0.0, 1.0], 0.5)(layer.kernel))}
  evs.append({"ev": "Lat", "reg": "torsion", "sizes": sizes, "l1": [rat(Fraction(1, 2))] * 3, "l2": [rat(Fraction(1, 4))] * 3,
              "kden": KDEN, "cols": [[int(round(float(v) * KDEN)) for v in K[:, 0]]], "oden": ODEN,
              "out": int(round((total - parts["laplacian"]) * ODEN)), "tolu": 8, "site": SITE, "call": {"path": "layer.losses"}})
  evs.append({"ev": "Lat", "reg": "laplacian", "sizes": sizes, "l1": [rat(Fraction(1, 2)), rat(0), rat(1)],
              "l2": [rat(Fraction(1, 2))] * 3, "kden": KDEN, "cols": [[int(round(float(v) * KDEN)) for v in K[:, 0]]],
              "oden": ODEN, "out": int(round((total - parts["torsion"]) * ODEN)), "tolu": 8, "site": SITE,
              "call": {"path": "layer.losses"}})
  pw = tfl.layers.PWLCalibration(input_keypoints=[0.0, 1.0, 2.0, 3.0], kernel_regularizer=("hessian", 0.5, 1.0))
  pw.build((None, 1))
  Kp = (rng.integers(-16, 17, size=(4, 1)) / float(KDEN)).astype(np.float32)
  pw.kernel.assign(Kp)
  evs.append({"ev": "Pwl", "reg": "hessian", "cyclic": False, "l1": rat(Fraction(1, 2)), "l2": rat(1), "kden": KDEN,
              "cols": [[int(round(float(v) * KDEN)) for v in Kp[:, 0]]], "oden": ODEN,
              "out": int(round(float(sum(pw.losses)) * ODEN)), "tolu": 8, "site": SITE, "call": {"path": "pwl layer.losses"}})
  ctx.count(3)
  # every PWL regularizer through the layer's ("name", l1, l2) argument, cyclic and not, one and two units: the layer
  # has to hand its own options (is_cyclic) on to the regularizer it constructs
  for reg in ("laplacian", "hessian", "wrinkle"):
    for cyclic in (False, True):
      for units in (1, 2):
        nk = int(rng.integers(4, 7))
        a1 = Fraction(int(rng.integers(1, 9)), 4)
        a2 = Fraction(int(rng.integers(0, 9)), 4)
        try:
          lay = tfl.layers.PWLCalibration(input_keypoints=[float(i) for i in range(nk)], units=units, is_cyclic=cyclic,
                                          kernel_regularizer=(reg, float(a1), float(a2)))
          lay.build((None, units))
          Kl = (rng.integers(-16, 17, size=tuple(lay.kernel.shape)) / float(KDEN)).astype(np.float32)
          lay.kernel.assign(Kl)
          val = float(sum(lay.losses))
        except Exception as ex:  # pylint: disable=broad-except
          evs.append({"ev": "Raised", "site": SITE, "exc": repr(ex)[:300], "call": {"reg": reg, "cyclic": cyclic, "path": "pwl layer"}})
          continue
        evs.append({"ev": "Pwl", "reg": reg, "cyclic": cyclic, "l1": rat(a1), "l2": rat(a2), "kden": KDEN,
                    "cols": [[int(round(float(v) * KDEN)) for v in Kl[:, u]] for u in range(units)], "oden": ODEN,
                    "out": int(round(val * ODEN)), "tolu": max(8, int(abs(val) * ODEN * 2e-5) + 4), "site": SITE,
                    "call": {"path": "pwl layer.losses", "reg": reg, "cyclic": cyclic, "units": units}})
        ctx.count(1, nontrivial_key=("pwl-layer", reg, cyclic, units))
  return evs


def run(ctx):
  tf, tfl = common.import_tf()
  ctx.rule = ("cases = random dyadic kernels on lattices [2,3] [3,2,2] [2,3,2] [2,2,2,2] [2,2] [4] [3,3] (rank >= 3 with "
              "unequal sizes for transposition mistakes), units 1-2, scalar and per-dimension amounts with zeros; PWL "
              "kernels of 2-6 rows, cyclic or not, incl. outputs linear / quadratic in the index; regularizer objects and "
              "the layers' kernel_regularizer path; non-trivial = distinct (regularizer, case)")
  ctx.model("MC_RegularizerProps", "Reg_q.cfg" if ctx.quick else "Reg_t.cfg", timeout=7200)
  ctx.exhaustive = True
  rng = np.random.default_rng(ctx.seed + 1313)
  events = lattice_events(tf, ctx, rng, 60 if ctx.quick else 1200)
  events += pwl_events(tf, ctx, rng, 60 if ctx.quick else 1200)
  events += layer_path_events(tf, tfl, ctx, rng)
  ctx.sample({k: events[0].get(k) for k in ("ev", "reg", "sizes", "l1", "l2", "cols", "out", "oden")})
  ctx.validate("TraceRegularizers", events)
  return ctx.finish()


def replay(ctx, path):
  """The cases are regenerated from the seed recorded in the replay file: re-execute and compare."""
  return common.rerun_replay(ctx, path, run)
