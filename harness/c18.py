"""C18 - Computed calibration keypoints are valid for every data sample.

spec: KeypointOps.tla (compute_keypoints / _weighted_quantile incl. the repair of repeated indices),
      Keypoints.tla (all small arrays), TraceKeypoints.tla (real results validated by TLC)
"""
import itertools
import json

import numpy as np

import common
from common import log

DEN = 64


def call(tfl, premade_lib, inp, scale=1.0, offset=0.0):
  """offset: the whole sample (values, clip bounds, default) is shifted by it for the real call and the result shifted
  back for the trace (the computation is translation invariant); used for data of large magnitude such as dates."""
  vals = np.array(inp["vals"], dtype=np.float64) / scale + offset
  w = np.array(inp["w"], dtype=np.float64) if inp["hasW"] else None
  kept_w = [wi for v, wi in zip(inp["vals"], inp["w"]) if not (inp["hasDef"] and v == inp["def"])]
  site = {"layer": "compute_keypoints", "mode": inp["mode"], "weighted": inp["hasW"],
          "zero_total_weight": bool(inp["hasW"] and sum(kept_w) == 0)}
  c = {"in": inp, "scale": scale}
  try:
    kp = premade_lib.compute_keypoints(
        vals, num_keypoints=inp["k"], keypoints=inp["mode"], clip_min=inp["cmin"] / scale + offset if inp["hasMin"] else None,
        clip_max=inp["cmax"] / scale + offset if inp["hasMax"] else None,
        default_value=inp["def"] / scale + offset if inp["hasDef"] else None,
        weights=w, weight_reduction=inp["red"])
  except Exception as ex:  # pylint: disable=broad-except
    return {"ev": "Raised", "in": inp, "site": site, "exc": repr(ex)[:200], "call": c}
  kp = np.asarray(kp, dtype=np.float64)
  if not common.all_finite(kp):
    return {"ev": "Raised", "in": inp, "site": site, "exc": "non-finite keypoints %s" % kp, "call": c}
  ok = True
  try:
    tfl.layers.PWLCalibration(input_keypoints=[float(v) for v in kp])
  except Exception:  # pylint: disable=broad-except
    ok = False
  c["offset"] = offset
  return {"ev": "Keypoints", "in": inp, "den": DEN, "kp": [int(round((float(v) - offset) * scale * DEN)) for v in kp], "pwlOk": ok,
          "exact": True, "site": site, "call": c}


def mk(vals, w, hasW, cmin, cmax, dflt, k, mode, red):
  return {"vals": [int(v) for v in vals], "hasW": bool(hasW), "w": [int(x) for x in (w if w is not None else [1] * len(vals))],
          "hasMin": cmin is not None, "cmin": int(cmin if cmin is not None else 0), "hasMax": cmax is not None,
          "cmax": int(cmax if cmax is not None else 0), "hasDef": dflt is not None, "def": int(dflt if dflt is not None else 0),
          "k": int(k), "mode": mode, "red": red}


def nonempty(inp):
  kept = [v for v in inp["vals"] if not (inp["hasDef"] and v == inp["def"])]
  return bool(kept) or inp["hasMin"] or inp["hasMax"]


def run(ctx):
  tf, tfl = common.import_tf()
  from tensorflow_lattice.python import premade_lib
  ctx.rule = ("cases = the model's space replayed on the real function: every array of length 1..3 (quick) over 0..3, "
              "weights {1,2}, clip bounds [1,2] on/off, default value 0 on/off, num_keypoints 2..3(4), both modes and "
              "reductions; plus random dyadic arrays (heavy duplicates, skew, constant after clipping) up to length 40 "
              "with num_keypoints up to 10, and for every k in 2..25 exactly k, k+1, k+2 distinct values; non-trivial = at least two distinct clipped values")
  ctx.model("MC_Keypoints", "Kp_q.cfg" if ctx.quick else "Kp_t.cfg", timeout=7200)
  ctx.exhaustive = True
  events = []
  maxlen = 3 if ctx.quick else 4
  ks = (2, 3) if ctx.quick else (2, 3, 4)
  for n in range(1, maxlen + 1):
    for vals in itertools.product(range(4), repeat=n):
      for hw, hm, hx, hd0 in itertools.product([False, True], [False, True], [False, True], [None, 0, 1, 2]):
        hd = hd0 is not None
        for k in ks:
          for mode in ("quantiles", "uniform"):
            # weighted: mixed {1,2}, constant, and one dominating entry (several quantiles then fall on the same value
            # and the repeated-index repair has to move more than one of them)
            ws = [(1,) * n] if not hw else [tuple(1 + ((i + sum(vals)) % 2) for i in range(n)), (2,) * n,
                                             tuple(50 if i == (sum(vals) + k) % n else 1 for i in range(n))]
            for w in ws:
              red = "mean" if (sum(vals) + k) % 2 else "sum"
              inp = mk(vals, w, hw, 1 if hm else None, 2 if hx else None, hd0, k, mode, red)
              if not nonempty(inp):
                continue
              ev = call(tfl, premade_lib, inp)
              events.append(ev)
              ctx.count(1, nontrivial_key=json.dumps(inp, sort_keys=True) if len(set(vals)) > 1 else None)
  log("  %d enumerated compute_keypoints calls" % len(events))
  ctx.sample({k: events[len(events) // 2].get(k) for k in ("ev", "in", "kp", "den", "pwlOk")})
  rng = np.random.default_rng(ctx.seed + 1818)
  for j in range(150 if ctx.quick else 3000):
    n = int(rng.integers(1, 41))
    kind = j % 4
    if kind == 0:
      vals = rng.integers(0, 4, size=n) * 16                   # heavy duplicates
    elif kind == 1:
      vals = (rng.integers(0, 6, size=n) ** 3)                  # skewed
    elif kind == 2:
      vals = rng.integers(-200, 200, size=n)
    else:
      vals = np.full(n, int(rng.integers(-50, 50)))             # constant
    hw = bool(rng.random() < 0.5)
    w = rng.integers(1, 5, size=n) if hw else None
    if hw and j % 3 == 0:
      w[rng.integers(0, n, size=int(rng.integers(1, 3)))] = int(rng.choice([40, 1000]))      # dominating weights
    cmin = int(rng.integers(-60, 60)) if rng.random() < 0.4 else None
    cmax = (int(rng.integers(0, 120)) + (cmin or 0)) if rng.random() < 0.4 else None
    dflt = int(vals[0]) if rng.random() < 0.3 else None
    if dflt is None and j % 7 == 0 and (cmin is not None or cmax is not None):
      dflt = cmin if cmin is not None else cmax                  # a default value sitting exactly on a clip bound
    inp = mk(vals, w, hw, cmin, cmax, dflt, int(rng.integers(2, 11)), str(rng.choice(["quantiles", "uniform"])),
             str(rng.choice(["mean", "sum"])))
    if not nonempty(inp):
      continue
    # every fifth sample sits at a large magnitude (dates coded yyyymmdd, unix timestamps): neighbouring keypoints
    # are distinct numbers although they would coincide if rounded to float32
    offset = [0.0, 0.0, 0.0, 0.0, 20230100.0, 0.0, 0.0, 0.0, 0.0, 1700000000.0][j % 10]
    ev = call(tfl, premade_lib, inp, scale=16.0 if offset == 0.0 else 1.0, offset=offset)
    if ev["ev"] == "Keypoints":
      ev["exact"] = len(set(inp["vals"])) <= 8 and inp["k"] <= 5
    events.append(ev)
    ctx.count(1, nontrivial_key=("rand", j) if len(set(vals)) > 1 else None)
  # exactly as many distinct values as keypoints (ratings, small vocabularies), and one or two more: every value
  # must become a keypoint; num_keypoints up to 25 (the index arithmetic i / (k - 1) * (k - 1) is not exact in floats)
  for k in range(2, 26):
    for extra in (0, 1, 2):
      for hw in (False, True):
        if hw and k % 3:
          continue
        base = np.sort(rng.choice(np.arange(-60, 120), size=k + extra, replace=False))
        vals = rng.permutation(np.repeat(base, rng.integers(1, 4, size=len(base))))
        w = rng.integers(1, 4, size=len(vals)) if hw else None
        inp = mk(vals, w, hw, None, None, None, k, "quantiles", "mean")
        ev = call(tfl, premade_lib, inp, scale=16.0, offset=0.0)
        if ev["ev"] == "Keypoints":
          ev["exact"] = False
        events.append(ev)
        ctx.count(1, nontrivial_key=("distinct", k, extra, hw))
  # the config helpers fill feature / label keypoints obeying the same rules
  try:
    fcs = [tfl.configs.FeatureConfig(name="a", pwl_calibration_num_keypoints=4),
           tfl.configs.FeatureConfig(name="b", pwl_calibration_num_keypoints=3, pwl_calibration_clip_max=5.0)]
    feats = {"a": np.array([0., 1., 1., 2., 7., 9.]), "b": np.array([3., 3., 3., 8., 1.])}
    kps = premade_lib.compute_feature_keypoints(fcs, feats)
    for name, k in (("a", 4), ("b", 3)):
      vals = [int(v) for v in feats[name]]
      inp = mk(vals, None, False, None, 5 if name == "b" else None, None, k, "quantiles", "mean")
      kp = np.asarray(kps[name], dtype=np.float64)
      events.append({"ev": "Keypoints", "in": inp, "den": DEN, "kp": [int(round(float(v) * DEN)) for v in kp], "pwlOk": True,
                     "exact": True, "site": {"layer": "compute_feature_keypoints"}, "call": {"helper": name}})
  except Exception as ex:  # pylint: disable=broad-except
    events.append({"ev": "Raised", "in": mk([0], None, False, None, None, None, 2, "quantiles", "mean"),
                   "site": {"layer": "compute_feature_keypoints"}, "exc": repr(ex)[:200], "call": {"helper": True}})
  ctx.validate("TraceKeypoints", events)
  return ctx.finish()


def replay(ctx, path):
  tf, tfl = common.import_tf()
  from tensorflow_lattice.python import premade_lib
  with open(path) as f:
    rec = json.load(f)
  events = []
  for ev in rec["events"]:
    c = ev["call"]
    if "in" not in c:
      continue
    e2 = call(tfl, premade_lib, c["in"], c.get("scale", 1.0), c.get("offset", 0.0))
    log("replay %s -> %s" % (json.dumps(c["in"]), e2.get("kp", e2.get("exc"))))
    events.append(e2)
  ctx.validate("TraceKeypoints", events, shards=1)
  return ctx.finish()
