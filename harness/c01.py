"""C01 - Lattice weight constraint returns kernels meeting every strict shape constraint.

spec: LatticeOps.tla (all Dykstra groups, finalize passes, feasibility predicates),
      LatticeConstraint.tla (state machine + invariants / action properties),
      MC_LatticeConstraint.tla (configuration spaces), TraceLattice.tla (code -> spec)
"""
import json

import numpy as np

import common
import latcfg
from common import log

QUICK_MODELS = ["Lat_q1.cfg", "Lat_q2.cfg", "Lat_q3.cfg"]
THOROUGH_MODELS = ["Lat_t1.cfg", "Lat_t2.cfg", "Lat_t3.cfg", "Lat_t4.cfg", "Lat_t5.cfg"]


def screen(c, K, out):
  """Cheap numpy screen (monotonicity along monotone dimensions, output bounds) used in the thorough tier to make sure
  that every suspicious column is among those handed to TLC; it never removes anything from the judged sample."""
  sizes = c["sizes"]
  o = out.reshape(tuple(sizes) + (out.shape[1],))
  bad = np.zeros(out.shape[1], dtype=bool)
  for d, m in enumerate(c["mono"]):
    if m == 1:
      diff = np.diff(o, axis=d)
      bad |= (diff.reshape(-1, out.shape[1]).min(axis=0) < -1e-6)
  if c["hasMin"]:
    bad |= out.min(axis=0) < float(latcfg.frac(c["omin"])) - 1e-6
  if c["hasMax"]:
    bad |= out.max(axis=0) > float(latcfg.frac(c["omax"])) + 1e-6
  bad |= ~np.isfinite(out).all(axis=0)
  return bad


def judged_columns(ctx, c, K, out, cap):
  """All columns in the quick tier; in the thorough tier (millions of enumerated kernels) a seeded sample of `cap`
  columns per call plus the columns the numpy screen flags (at most 5 * cap of them per call).  Every column is still
  run through the real code."""
  n = K.shape[1]
  ctx.extra["columns_run"] = ctx.extra.get("columns_run", 0) + n
  if ctx.quick or n <= cap:
    ctx.extra["columns_judged"] = ctx.extra.get("columns_judged", 0) + n
    return np.arange(n)
  rng = np.random.default_rng(ctx.seed + n + len(c["sizes"]))
  pick = np.zeros(n, dtype=bool)
  pick[rng.choice(n, size=cap, replace=False)] = True
  flagged = np.nonzero(screen(c, K, out))[0]
  if len(flagged) > 5 * cap:          # (the listed known finding flags thousands of columns of its configurations)
    flagged = rng.choice(flagged, size=5 * cap, replace=False)
  pick[flagged] = True
  ctx.extra["columns_judged"] = ctx.extra.get("columns_judged", 0) + int(pick.sum())
  return np.nonzero(pick)[0]


def replay_cases(tf, tfl, ctx, files):
  """spec -> code: every TLC-enumerated (configuration, kernel) through the real constraint."""
  events = []
  nlayer = 0
  cap = 400
  for fi, cf in enumerate(files):
    for j, c in enumerate(cf["cfgs"]):
      nv = int(np.prod(c["sizes"]))
      K = latcfg.grid_kernels(cf["vals"], nv)
      try:
        out = latcfg.run_constraint(tf, tfl, c, K)
        idx = judged_columns(ctx, c, K, out, cap)
        events += latcfg.events_for(c, K[:, idx], out[:, idx], "Constrain", True, ctx)
      except Exception as ex:  # pylint: disable=broad-except
        events.append(latcfg.raised_event(c, "Constrain", ex))
      # the library function on its own, and a slice through the layer's finalize_constraints()
      if any(c["mono"]):
        try:
          out = latcfg.run_finalize_lib(tf, c, K)
          idx = judged_columns(ctx, c, K, out, cap)
          events += latcfg.events_for(c, K[:, idx], out[:, idx], "Finalize", True, ctx)
        except Exception as ex:  # pylint: disable=broad-except
          events.append(latcfg.raised_event(c, "Finalize", ex))
      if (j + ctx.seed) % (6 if ctx.quick else 3) == 0:
        Ks = K[:, (ctx.seed + j) % 5::5][:, :200]
        try:
          out = latcfg.run_layer_finalize(tf, tfl, c, Ks)
          events += latcfg.events_for(c, Ks, out, "LayerFinalize", False, ctx)
          # single-unit path (reductions over all axes)
          for u in range(min(3, Ks.shape[1])):
            out1 = latcfg.run_constraint(tf, tfl, c, Ks[:, u:u + 1])
            events += latcfg.events_for(c, Ks[:, u:u + 1], out1, "Constrain", True, ctx)
          nlayer += 1
        except Exception as ex:  # pylint: disable=broad-except
          events.append(latcfg.raised_event(c, "LayerFinalize", ex))
  log("  replayed %d enumerated events (%d configurations also through Lattice.finalize_constraints())"
      % (len(events), nlayer))
  return events


def random_events(tf, tfl, ctx, n):
  rng = np.random.default_rng(ctx.seed + 1001)
  events = []
  for j in range(n):
    c = latcfg.random_cfg(rng)
    units = int(rng.choice([1, 2, 3, 8]))
    K = latcfg.random_kernels(rng, c, units)
    exact = (c["iters"] <= 1 and len(c["sizes"]) <= 3 and float(np.abs(K).max()) < 70 and
             float(np.abs(K[K != 0]).min(initial=1.0)) >= 1 / 16 and int(np.prod(c["sizes"])) <= 18)
    for ev in ("Constrain", "LayerFinalize") if j % 2 == 0 else ("Constrain", "Finalize"):
      if ev == "Finalize" and not any(c["mono"]):
        continue
      try:
        if ev == "Constrain":
          out = latcfg.run_constraint(tf, tfl, c, K) if j % 3 else latcfg.run_layer_constraint(tf, tfl, c, K)
        elif ev == "Finalize":
          out = latcfg.run_finalize_lib(tf, c, K)
        else:
          out = latcfg.run_layer_finalize(tf, tfl, c, K)
        events += latcfg.events_for(c, K, out, ev, exact and ev != "LayerFinalize", ctx)
      except latcfg.Rejected:
        ctx.extra["rejected_at_construction"] = ctx.extra.get("rejected_at_construction", 0) + 1
      except Exception as ex:  # pylint: disable=broad-except
        events.append(latcfg.raised_event(c, ev, ex))
  return events


def run(ctx):
  tf, tfl = common.import_tf()
  ctx.rule = ("cases = every valid configuration of the TLC configuration spaces x every integer kernel of the "
              "model's domain, replayed through LatticeConstraints, lattice_lib.finalize_constraints and "
              "Lattice.finalize_constraints(), plus seeded random valid configurations (ranks 1-4, sizes 2-4, all "
              "families alongside) with dyadic kernels; non-trivial = the call changed the kernel; distinct = "
              "distinct (configuration, kernel, call)")
  for m in (QUICK_MODELS if ctx.quick else THOROUGH_MODELS):
    ctx.model("MC_LatticeConstraint", m, timeout=10800)
  ctx.model("MC_LatticeConstraint", "Lat_known.cfg", expect_violation="InvMonoAll",
            note="self-test: the known finding (trapezoid pass breaks monotonicity) exists at design level")
  ctx.exhaustive = True
  files = ctx.tlc_cases("GenLattice", "GenLat.cfg", env={"VERIF_TIER": ctx.tier})
  events = replay_cases(tf, tfl, ctx, files)
  mid = events[len(events) // 3]
  ctx.sample({k: mid.get(k) for k in ("ev", "cfg", "w0", "w", "den")})
  revents = random_events(tf, tfl, ctx, 120 if ctx.quick else 2500)
  if revents:
    ctx.sample({"random": {k: revents[-1].get(k) for k in ("ev", "cfg", "w0", "w", "den")}})
  ctx.validate("TraceLattice", events + revents)
  return ctx.finish()


def replay(ctx, path):
  tf, tfl = common.import_tf()
  with open(path) as f:
    rec = json.load(f)
  events = []
  for ev in rec["events"]:
    call = ev["call"]
    c = call["cfg"]
    K = np.array(call["w0"], dtype=np.float32).reshape(-1, 1)
    if call["path"] == "Finalize":
      out = latcfg.run_finalize_lib(tf, c, K)
    elif call["path"] == "LayerFinalize":
      out = latcfg.run_layer_finalize(tf, tfl, c, K)
    else:
      out = latcfg.run_constraint(tf, tfl, c, K)
    log("replay %s cfg=%s\n  w0=%s\n  -> %s" % (call["path"], c, call["w0"], out[:, 0].tolist()))
    events += latcfg.events_for(c, K, out, call["path"], ev.get("exact", False), ctx)
  ctx.validate("TraceLattice", events, shards=1)
  return ctx.finish()
