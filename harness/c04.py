"""C04 - PWLCalibration weight constraint returns keypoint outputs meeting all its limits.

spec: PwlConstraint.tla (algorithm, one action per code step; contracts *OK)
      MC_PwlConstraint.tla (configuration cross products), TracePwl.tla (code -> spec)
"""
import itertools
from fractions import Fraction

import numpy as np

import common
from common import log

BT_NAMES = {"N": "NONE", "B": "BOUND", "C": "CLAMPED"}
TOLU = 24


def rat(x):
  f = Fraction(x)
  return [f.numerator, f.denominator]


def frac(p):
  return Fraction(p[0], p[1])


def site_of_cfg(c, path, col=None):
  """Coarse call-site class of an event, used to tell listed known findings from new violations."""
  squeeze = c["mono"] != 0 and c["conv"] != 0 and (c["minT"] != "N" or c["maxT"] != "N")
  site = {"layer": "pwl", "path": path, "squeeze_path": squeeze, "iters0": c["iters"] == 0}
  if squeeze and col is not None:
    # the listed finding needs the returned bias outside the bounds or within the code's 0.001 guard
    # of the far bound; a bounds failure with the bias well inside is something else
    lo, hi, b = float(frac(c["omin"])), float(frac(c["omax"])), float(col[0])
    near = False
    if c["maxT"] != "N" and (b > hi - 0.001 if c["mono"] == 1 else b > hi):
      near = True
    if c["minT"] != "N" and (b < lo + 0.001 if c["mono"] == -1 else b < lo):
      near = True
    site["bias_at_or_beyond_bound"] = near
  return site


def make_constraint(tf, c):
  from tensorflow_lattice.python import pwl_calibration_layer as layer_mod
  from tensorflow_lattice.python import pwl_calibration_lib as pl
  bt = pl.BoundConstraintsType
  lens = [float(frac(l)) for l in c["len"]]
  omin = float(frac(c["omin"])) if c["minT"] != "N" else None
  omax = float(frac(c["omax"])) if c["maxT"] != "N" else None
  return layer_mod.PWLCalibrationConstraints(
      monotonicity=c["mono"], convexity=c["conv"], lengths=tf.constant(lens, dtype=tf.float32),
      output_min=omin, output_max=omax,
      output_min_constraints=getattr(bt, BT_NAMES[c["minT"]]),
      output_max_constraints=getattr(bt, BT_NAMES[c["maxT"]]),
      num_projection_iterations=c["iters"])


def run_constraint(tf, c, K):
  """K: (rows, units) float32 array. Returns projected array via the constraint object."""
  cons = make_constraint(tf, c)
  return cons(tf.constant(K, dtype=tf.float32)).numpy()


def run_layer(tf, tfl, c, K, cyclic=False):
  """Through the layer: assign, apply the variable's own constraint, read the kernel back."""
  lens = [float(frac(l)) for l in c["len"]]
  kps = [0.0]
  for l in lens:
    kps.append(kps[-1] + l)
  if cyclic:
    kps.append(kps[-1] + 1.0)
  omin = float(frac(c["omin"])) if c["minT"] != "N" else None
  omax = float(frac(c["omax"])) if c["maxT"] != "N" else None
  layer = tfl.layers.PWLCalibration(
      input_keypoints=kps, units=K.shape[1], output_min=omin, output_max=omax,
      clamp_min=c["minT"] == "C", clamp_max=c["maxT"] == "C", monotonicity=c["mono"],
      convexity=c["conv"], is_cyclic=cyclic, num_projection_iterations=c["iters"])
  layer.build((None, K.shape[1]))
  layer.kernel.assign(K.astype(np.float32))
  layer.kernel.assign(layer.kernel.constraint(layer.kernel))
  return layer.kernel.numpy(), layer.keypoints_outputs().numpy()


def events_for(c, K, out, path, exact, ctx, tolu=TOLU, extra=None):
  evs = []
  for u in range(K.shape[1]):
    col0, col = K[:, u], out[:, u]
    site = site_of_cfg(c, path, col)
    call = {"path": path, "cfg": c, "w0": [float(v) for v in col0]}
    if not common.all_finite(col):
      evs.append({"ev": "NonFinite", "cfg": c, "site": site, "call": call, "out": [str(v) for v in col]})
      continue
    e = common.fx_scale(list(col0) + list(col), bits=21)
    e = max(0, e)
    ev = {"ev": "Constrain", "cfg": c, "den": 2 ** e, "tolu": tolu,
          "w0": [common.fx(v, e) for v in col0], "w": [common.fx(v, e) for v in col],
          "sg": [int(np.sign(v)) for v in col[1:]], "exact": bool(exact), "site": site, "call": call}
    if extra:
      ev.update(extra)
    evs.append(ev)
    ctx.count(1, nontrivial_key=(str(c), tuple(col0)) if not np.allclose(col0, col, atol=1e-7) else None)
  return evs


def grid_kernels(vals, rows):
  return np.array(list(itertools.product(vals, repeat=rows)), dtype=np.float32).T


# ---------------------------------------------------------------------------------------------
# random driver (code -> spec beyond the enumerated constants); all numbers dyadic so that the
# trace represents the inputs exactly and TLC can decide feasibility of the input exactly
# ---------------------------------------------------------------------------------------------
def random_cfg(rng, quick):
  nk = int(rng.integers(2, 7))
  nh = nk - 1
  mono = int(rng.choice([-1, 0, 1]))
  conv = int(rng.choice([-1, 0, 0, 1]))
  minT = str(rng.choice(["N", "B", "C"]))
  maxT = str(rng.choice(["N", "B", "C"]))
  if mono == 0:
    minT = "B" if minT == "C" else minT
    maxT = "B" if maxT == "C" else maxT
  lo = Fraction(int(rng.integers(-8, 8)), 4)
  hi = lo + Fraction(int(rng.integers(0 if rng.random() < 0.1 else 1, 24)), 4)
  if conv != 0:
    lens = [Fraction(int(rng.integers(1, 17)), 4) for _ in range(nh)]
  else:
    lens = [Fraction(1)] * nh
  iters = int(rng.choice([0, 1, 2, 3, 8, 8, 8, 20]))
  return {"mono": mono, "conv": conv, "minT": minT, "maxT": maxT, "omin": rat(lo), "omax": rat(hi),
          "len": [rat(l) for l in lens], "iters": iters}


def random_kernels(rng, c, units):
  """Columns of dyadic kernels of several flavours."""
  n = len(c["len"]) + 1
  lo, hi = float(frac(c["omin"])), float(frac(c["omax"]))
  cols = []
  for _ in range(units):
    kind = rng.integers(0, 9)
    if kind == 0:      # uniform moderate
      col = rng.integers(-64, 65, size=n) / 16.0
    elif kind == 1:    # bias far outside the bounds, wrong-sign heights
      col = rng.integers(-64, 65, size=n) / 16.0
      col[0] = float(rng.choice([-1000.0, 1000.0, -37.5, 41.25]))
    elif kind == 2:    # ties / zeros
      col = rng.choice([0.0, 0.0, 1.0, -1.0, 0.5], size=n)
    elif kind == 3:    # tiny
      col = rng.integers(-64, 65, size=n) / float(2 ** 18)
    elif kind == 4:    # huge
      col = rng.integers(-64, 65, size=n) * 4096.0
    elif kind == 5:    # bias within a hair of the upper / lower bound
      col = rng.integers(0, 33, size=n) / 16.0
      col[0] = (hi if rng.random() < 0.5 else lo) + float(rng.choice([-1, 0, 1])) / 2048.0
      if c["mono"] < 0:
        col[1:] = -col[1:]
    elif kind in (6, 7):    # feasible by construction (sorted slopes, inside the bounds)
      lens = np.array([float(frac(l)) for l in c["len"]])
      slopes = np.sort(rng.integers(0, 9, size=n - 1)).astype(float)
      if c["conv"] < 0:
        slopes = slopes[::-1]
      h = slopes * lens / 4.0
      if c["mono"] < 0 or (c["mono"] == 0 and rng.random() < 0.5):
        h = -h[::-1] if c["conv"] == 0 else -h
        if c["conv"] != 0:
          h = -(np.sort(rng.integers(0, 9, size=n - 1)).astype(float)[::-1 if c["conv"] > 0 else 1]) * lens / 4.0
      while np.abs(h).sum() > max(hi - lo, 0.0) and np.abs(h).sum() > 0:
        h = h / 2.0
      tot = h.sum()
      b = lo if tot >= 0 else lo - tot
      if c["maxT"] == "C" and c["minT"] != "C":
        b = hi - max(tot, 0.0)
      col = np.concatenate([[b], h])
    else:              # anti-sorted big steps
      col = -np.abs(rng.integers(1, 65, size=n) / 4.0) * (1 if c["mono"] >= 0 else -1)
      col[0] = float(rng.integers(-32, 33)) / 4.0
    cols.append(np.asarray(col, dtype=np.float64))
  return np.stack(cols, axis=1).astype(np.float32)


def run(ctx):
  tf, tfl = common.import_tf()
  quick = ctx.quick
  ctx.rule = ("cases = every valid configuration of the TLC configuration cross product x every integer kernel "
              "of the model's domain (spec -> code replay through PWLCalibrationConstraints and the layer), plus "
              "seeded random dyadic configurations/kernels; a case is non-trivial when the constraint changed the "
              "kernel; distinct = distinct (configuration, kernel)")
  # ---- 1. design level -----------------------------------------------------------------------
  ctx.model("MC_PwlConstraint", "Pwl_q.cfg")
  if not quick:
    ctx.model("MC_PwlConstraint", "Pwl_t3.cfg", timeout=7200)
    ctx.model("MC_PwlConstraint", "Pwl_t4.cfg", timeout=7200)
  ctx.model("MC_PwlConstraint", "Pwl_known.cfg", expect_violation="InvBoundsAll",
            note="self-test: without the known-finding exemptions the bounds contract fails at design level")
  ctx.exhaustive = True
  # ---- 2. spec -> code: replay every enumerated case on the real constraint --------------------
  events = []
  files = ctx.tlc_cases("GenPwl", "Gen.cfg", env={"VERIF_TIER": ctx.tier})
  for cf in files:
    for c in cf["cfgs"]:
      K = grid_kernels(cf["vals"], len(c["len"]) + 1)
      try:
        out = run_constraint(tf, c, K)
      except Exception as ex:  # pylint: disable=broad-except
        events.append({"ev": "Raised", "cfg": c, "site": site_of_cfg(c, "constraint"),
                       "exc": repr(ex)[:200], "call": {"path": "constraint", "cfg": c}})
        continue
      events += events_for(c, K, out, "constraint", True, ctx)
  ctx.sample({"cfg": events[len(events) // 2]["cfg"], "w0": events[len(events) // 2]["call"]["w0"],
              "real_w_fixed_point": events[len(events) // 2].get("w"), "den": events[len(events) // 2].get("den")})
  # the same configurations through the layer (variable.constraint), a slice of the kernels
  lay = 0
  for cf in files[:1]:
    for j, c in enumerate(cf["cfgs"]):
      if quick and j % 4 != ctx.seed % 4:
        continue
      K = grid_kernels(cf["vals"], len(c["len"]) + 1)
      K = K[:, (ctx.seed + j) % 3::3]
      try:
        out, _ = run_layer(tf, tfl, c, K)
      except Exception as ex:  # pylint: disable=broad-except
        events.append({"ev": "Raised", "cfg": c, "site": site_of_cfg(c, "layer"), "exc": repr(ex)[:200],
                       "call": {"path": "layer", "cfg": c}})
        continue
      events += events_for(c, K, out, "layer", True, ctx)
      lay += 1
  log("  replayed %d enumerated constraint cases (+ %d configurations through the layer)" % (len(events), lay))
  # ---- 3. random driver -------------------------------------------------------------------------
  rng = np.random.default_rng(ctx.seed + 4004)
  nrand = 150 if quick else 3000
  revents = []
  for j in range(nrand):
    c = random_cfg(rng, quick)
    K = random_kernels(rng, c, 12)
    path = "layer" if j % 3 == 0 else "constraint"
    try:
      if path == "layer":
        cyc = c["mono"] == 0 and c["conv"] == 0 and j % 2 == 0
        out, _ = run_layer(tf, tfl, c, K, cyclic=cyc)
      else:
        out = run_constraint(tf, c, K)
    except Exception as ex:  # pylint: disable=broad-except
      revents.append({"ev": "Raised", "cfg": c, "site": site_of_cfg(c, path), "exc": repr(ex)[:200],
                      "call": {"path": path, "cfg": c}})
      continue
    revents += events_for(c, K, out, path, c["iters"] <= 2 and abs(K).max() < 70 and abs(K[K != 0]).min(initial=1) >= 1 / 16, ctx)
  if revents:
    ctx.sample({"random_case": {k: v for k, v in revents[0].items() if k in ("cfg", "w0", "w", "den")}})
  # missing-output variable (NaiveBoundsConstraints)
  mevents = missing_output_events(tf, tfl, rng, ctx, 20 if quick else 200)
  # ---- 4. code -> spec ---------------------------------------------------------------------------
  ctx.validate("TracePwl", events + revents + mevents)
  return ctx.finish()


def missing_output_events(tf, tfl, rng, ctx, n):
  """The imputed missing-value output stays within the bounds: one-row kernel, bounds-only contract."""
  evs = []
  for _ in range(n):
    lo = Fraction(int(rng.integers(-8, 8)), 4)
    hi = lo + Fraction(int(rng.integers(0, 24)), 4)
    minT = str(rng.choice(["N", "B"]))
    maxT = str(rng.choice(["N", "B"]))
    units = int(rng.integers(1, 4))
    layer = tfl.layers.PWLCalibration(
        input_keypoints=[0.0, 1.0, 2.0], units=units, output_min=float(lo) if minT != "N" else None,
        output_max=float(hi) if maxT != "N" else None, impute_missing=True, missing_input_value=-1.0)
    layer.build((None, units))
    v = (rng.integers(-4096, 4097, size=(1, units)) / 16.0).astype(np.float32)
    layer.missing_output.assign(v)
    out = layer.missing_output.constraint(layer.missing_output).numpy()
    c = {"mono": 0, "conv": 0, "minT": minT, "maxT": maxT, "omin": rat(lo), "omax": rat(hi), "len": [], "iters": 8}
    evs += events_for(c, v, out, "missing_output", False, ctx)
  return evs


def replay(ctx, path):
  import json
  tf, tfl = common.import_tf()
  with open(path) as f:
    rec = json.load(f)
  events = []
  for ev in rec["events"]:
    call = ev["call"]
    c = call["cfg"]
    K = np.array(call["w0"], dtype=np.float32).reshape(-1, 1)
    if call["path"] == "layer":
      out, _ = run_layer(tf, tfl, c, K)
    else:
      out = run_constraint(tf, c, K)
    log("replay cfg=%s w0=%s -> %s" % (c, call["w0"], out[:, 0].tolist()))
    events += events_for(c, K, out, call["path"], ev.get("exact", False), ctx)
  ctx.validate("TracePwl", events, shards=1)
  return ctx.finish()
