"""C12 - assert_constraints accepts exactly the weights that meet the covered constraints.

spec: AssertOps.tla (oracle per layer kind), AssertOracle.tla (injection machine), MC_AssertOracle.tla,
      TraceAssert.tla (real assert_constraints outcomes judged by the oracle)
"""
import json
from fractions import Fraction

import numpy as np

import common
import latcfg
import c07
from common import log
from latcfg import frac

DEN = 4096


def make_layer(tf, tfl, c, units=1):
  k = c["kind"]
  if k == "lattice":
    cc = dict(c)
    cc.update({"iters": 1, "strict": True})
    layer = latcfg.make_layer(tfl, cc, units)
    return layer, [layer.kernel]
  if k == "pwl":
    layer = tfl.layers.PWLCalibration(
        input_keypoints=[float(i) for i in range(c["n"])], units=units, monotonicity=c["mono"],
        output_min=float(frac(c["omin"])) if c["hasMin"] else None, output_max=float(frac(c["omax"])) if c["hasMax"] else None,
        clamp_min=c["clampMin"], clamp_max=c["clampMax"])
    layer.build((None, units))
    return layer, [layer.kernel]
  if k == "linear":
    n = len(c["mono"])
    z = lambda ps: [(p[0] - 1, p[1] - 1) for p in ps] or None
    use_b = bool(c["rdom"])
    layer = tfl.layers.Linear(num_input_dims=n, units=units, monotonicities=list(c["mono"]), monotonic_dominances=z(c["mdom"]),
                              range_dominances=z(c["rdom"]), input_min=[0.0] * n if use_b else None,
                              input_max=[float(frac(r)) for r in c["range"]] if use_b else None,
                              normalization_order=c["norm"] or None, use_bias=False)
    layer.build((None, n) if units == 1 else (None, units, n))
    return layer, [layer.kernel]
  if k == "cat":
    layer = tfl.layers.CategoricalCalibration(
        num_buckets=c["nb"], units=units, monotonicities=[(p[0] - 1, p[1] - 1) for p in c["pairs"]] or None,
        output_min=float(frac(c["omin"])) if c["hasMin"] else None, output_max=float(frac(c["omax"])) if c["hasMax"] else None)
    layer.build((None, units))
    return layer, [layer.kernel]
  layer = c07.make_layer(tfl, c, units)
  return layer, [layer.kernel, layer.scale]


def assign(c, layer, w):
  w = np.asarray(w, dtype=np.float32)
  if c["kind"] == "kfl":
    nk = c["L"] * c["dims"] * c["terms"]
    layer.kernel.assign(c07.to_var(c, w[:nk].reshape(1, c["L"], c["dims"], c["terms"])))
    layer.scale.assign(w[nk:].reshape(1, c["terms"]))
  else:
    layer.kernel.assign(w.reshape(layer.kernel.shape))


def assign_multi(c, layer, ws):
  """ws: one weight vector per unit."""
  W = np.asarray(ws, dtype=np.float32)                  # (units, n)
  if c["kind"] == "kfl":
    nk = c["L"] * c["dims"] * c["terms"]
    layer.kernel.assign(c07.to_var(c, W[:, :nk].reshape(len(ws), c["L"], c["dims"], c["terms"])))
    layer.scale.assign(W[:, nk:].reshape(len(ws), c["terms"]))
  else:
    layer.kernel.assign(W.T.reshape(layer.kernel.shape))


def outcome(tf, layer, eps):
  try:
    layer.assert_constraints(eps=eps)
    return "pass"
  except tf.errors.InvalidArgumentError:
    return "fail"


def run(ctx):
  tf, tfl = common.import_tf()
  ctx.rule = ("cases = for every configuration of the TLC space (Lattice with each covered family, PWL with every bound/"
              "clamp mode, Linear, Categorical with several pairs, KFL) a seeded sample of the feasible base vectors "
              "enumerated by TLC, each also with ONE entry changed - at every location, in both directions, by 4*eps and by "
              "1 - for eps in {1e-3} (quick) / {1e-6, 1e-3, 1/4} (thorough); each is assigned to a real layer and "
              "assert_constraints(eps) is run eagerly; non-trivial = an injected case that the oracle classifies")
  ctx.model("MC_AssertOracle", "Assert_q.cfg")
  ctx.exhaustive = True
  files = ctx.tlc_cases("GenAssert", "GenAssert.cfg", env={"VERIF_TIER": ctx.tier})
  rng = np.random.default_rng(ctx.seed + 1212)
  epss = [Fraction(1, 1000)] if ctx.quick else [Fraction(1, 10 ** 6), Fraction(1, 1000), Fraction(1, 4)]
  events = []
  multi = {}
  nb = 6 if ctx.quick else 40
  for cf in files:
    c = cf["cfg"]
    try:
      layer, _ = make_layer(tf, tfl, c)
    except (ValueError, latcfg.Rejected) as ex:
      ctx.extra["rejected_at_construction"] = ctx.extra.get("rejected_at_construction", 0) + 1
      continue
    bases = cf["bases"]
    pick = rng.choice(len(bases), size=min(nb, len(bases)), replace=False)
    site = {"layer": c["kind"], "pairs": len(c.get("pairs", []))}
    for eps in epss:
      for bi in pick:
        base = np.array(bases[bi], dtype=np.float64)
        variants = [base]
        for i in range(len(base)):
          for mag in (4 * float(eps), 1.0):
            for sg in (1.0, -1.0):
              v = base.copy()
              v[i] += sg * mag
              variants.append(v)
        for v in variants:
          assign(c, layer, v)
          try:
            oc = outcome(tf, layer, float(eps))
          except Exception as ex:  # pylint: disable=broad-except
            events.append({"ev": "Raised", "cfg": c, "site": site, "exc": repr(ex)[:200], "call": {"cfg": c, "w": v.tolist()}})
            continue
          den = 10 ** 6 if eps < Fraction(1, 1000) else 4000
          events.append({"ev": "Assert", "cfg": c, "den": den, "w": [int(round(x * den)) for x in v],
                         "eps": [eps.numerator, eps.denominator], "outcome": oc, "site": site,
                         "call": {"cfg": c, "w": v.tolist(), "eps": float(eps)}})
        # "whichever unit is the offender": the same vectors as units of one multi-unit layer, the changed vector in
        # every position next to untouched base vectors (the oracle is applied per unit)
        for units in (2, 3):
          key = (json.dumps(c, sort_keys=True), units)
          if key not in multi:
            try:
              multi[key] = make_layer(tf, tfl, c, units)[0]
            except Exception as ex:  # pylint: disable=broad-except
              multi[key] = None
              ctx.notes.append("multi-unit layer not built for %s: %r" % (c["kind"], ex))
          lay = multi[key]
          if lay is None:
            continue
          for vi in rng.choice(len(variants), size=min(6 if ctx.quick else 16, len(variants)), replace=False):
            pos = int(rng.integers(0, units))
            ws = [base] * units
            ws[pos] = variants[int(vi)]
            try:
              assign_multi(c, lay, ws)
              oc = outcome(tf, lay, float(eps))
            except Exception as ex:  # pylint: disable=broad-except
              events.append({"ev": "Raised", "cfg": c, "site": site, "exc": repr(ex)[:200], "call": {"cfg": c, "ws": [w.tolist() for w in ws]}})
              continue
            den = 10 ** 6 if eps < Fraction(1, 1000) else 4000
            events.append({"ev": "AssertMulti", "cfg": c, "den": den, "ws": [[int(round(x * den)) for x in w] for w in ws],
                           "eps": [eps.numerator, eps.denominator], "outcome": oc, "site": site,
                           "call": {"cfg": c, "ws": [w.tolist() for w in ws], "eps": float(eps)}})
            ctx.count(1)
        ctx.count(len(variants), nontrivial_key=(json.dumps(c, sort_keys=True), int(bi), str(eps)))
  log("  %d assert_constraints calls" % len(events))
  ctx.sample({k: events[len(events) // 2].get(k) for k in ("cfg", "w", "den", "eps", "outcome")})
  # RTL delegates to its lattices: a violation inside one sub-lattice must be reported
  try:
    rtl = tfl.layers.RTL(num_lattices=2, lattice_rank=2, lattice_size=2, random_seed=1)
    rtl.build({"increasing": (None, 3)})
    sub = [l for l in rtl._lattice_layers.values()] if hasattr(rtl, "_lattice_layers") else []
    for lay in sub:
      for which, kern in (("pass", np.array([[0.0], [0.0], [1.0], [1.0]])), ("fail", np.array([[1.0], [1.0], [0.0], [0.0]]))):
        K = np.repeat(kern, lay.kernel.shape[1], axis=1).astype(np.float32)
        lay.kernel.assign(K)
        try:
          rtl.assert_constraints(eps=1e-3)
          oc = "pass"
        except tf.errors.InvalidArgumentError:
          oc = "fail"
        c = dict(latcfg.base([2, 2]))
        c.update({"kind": "lattice", "mono": [1, 1]})
        c.pop("iters"), c.pop("strict")
        events.append({"ev": "Assert", "cfg": c, "den": 4000, "w": [int(v * 4000) for v in kern[:, 0]], "eps": [1, 1000],
                       "outcome": oc, "site": {"layer": "rtl"}, "call": {"rtl": True, "w": kern[:, 0].tolist()}})
        lay.kernel.assign(np.repeat(np.array([[0.0], [0.0], [1.0], [1.0]]), lay.kernel.shape[1], axis=1).astype(np.float32))
  except Exception as ex:  # pylint: disable=broad-except
    ctx.notes.append("RTL delegation case not run: %r" % (ex,))
  # RTL with output bounds (also bounds equal to 0 and one-sided ones) and mixed inputs: a bound or monotonicity
  # violation in ANY of its lattice groups - the all-unconstrained one included - and in any unit must be reported
  for omin, omax in ((0.0, None), (None, 0.0), (0.25, None), (0.0, 1.0), (None, None)):
    for seed in ((3, 5) if ctx.quick else (1, 2, 3, 5, 8)):
      try:
        rtl = tfl.layers.RTL(num_lattices=6, lattice_rank=2, lattice_size=2, output_min=omin, output_max=omax, random_seed=seed)
        rtl.build({"unconstrained": (None, 3), "increasing": (None, 3)})
        rtl({"unconstrained": tf.zeros((1, 3)), "increasing": tf.zeros((1, 3))})
      except Exception as ex:  # pylint: disable=broad-except
        ctx.notes.append("RTL bound case not built: %r" % (ex,))
        continue
      lo = omin if omin is not None else (omax - 1.0 if omax is not None else 0.0)
      hi = omax if omax is not None else lo + 1.0
      mid = (lo + hi) / 2.0
      groups = list(rtl._lattice_layers.items())
      for key, lay in groups:
        monos = [int(v) for v in key.strip("()[] ").replace(" ", "").split(",") if v != ""]
        units = int(lay.kernel.shape[1])
        feasible = np.full((4, units), mid, dtype=np.float32)
        c = dict(latcfg.base([2, 2]))
        c.update({"kind": "lattice", "mono": monos, "hasMin": omin is not None, "omin": latcfg.rat(Fraction(omin or 0.0)),
                  "hasMax": omax is not None, "omax": latcfg.rat(Fraction(omax or 0.0))})
        c.pop("iters"), c.pop("strict")
        injections = [("none", None)]
        if omin is not None:
          injections.append(("below", omin - 0.5))
        if omax is not None:
          injections.append(("above", omax + 0.5))
        for what, val in injections:
          for u in (range(units) if what != "none" else [0]):
            for other_key, other in groups:
              other.kernel.assign(np.full(other.kernel.shape, mid, dtype=np.float32))
            K = feasible.copy()
            if val is not None:
              K[int(rng.integers(0, 4)), u] = val
            lay.kernel.assign(K)
            try:
              rtl.assert_constraints(eps=1e-3)
              oc = "pass"
            except tf.errors.InvalidArgumentError:
              oc = "fail"
            events.append({"ev": "Assert", "cfg": c, "den": 4000, "w": [int(round(float(v) * 4000)) for v in K[:, u]], "eps": [1, 1000],
                           "outcome": oc, "site": {"layer": "rtl", "group": key},
                           "call": {"rtl": True, "omin": omin, "omax": omax, "seed": seed, "group": key, "unit": u, "w": K[:, u].tolist()}})
            ctx.count(1, nontrivial_key=("rtl", omin, omax, seed, key, what, u))
  ctx.validate("TraceAssert", events)
  return ctx.finish()


def replay(ctx, path):
  tf, tfl = common.import_tf()
  with open(path) as f:
    rec = json.load(f)
  events = []
  for ev in rec["events"]:
    call = ev["call"]
    if call.get("rtl"):
      continue
    c = call["cfg"]
    if "ws" in call:
      layer, _ = make_layer(tf, tfl, c, len(call["ws"]))
      assign_multi(c, layer, [np.array(w) for w in call["ws"]])
    else:
      layer, _ = make_layer(tf, tfl, c)
      assign(c, layer, call["w"])
    oc = outcome(tf, layer, call["eps"])
    log("replay cfg=%s w=%s eps=%s -> %s" % (c, call["w"], call["eps"], oc))
    e2 = dict(ev)
    e2["outcome"] = oc
    events.append(e2)
  ctx.validate("TraceAssert", events, shards=1)
  return ctx.finish()
