"""C19 - Gradients delivered to training equal the true derivatives of layer functions.

spec: Gradients.tla (custom_reduce_prod's three-part gradient formula = derivative of the plain product, for
      every zero pattern), TraceGradients.tla (real tf.GradientTape results validated by TLC; kernel gradients of
      Lattice / PWL / Categorical against the interpolation weights of LatticeInterp / CalibratorOps)
"""
import itertools
import json

import numpy as np

import common
from common import log
from latcfg import rat

GDEN = 2 ** 14
SITE = {"layer": "gradients"}


def prod_grad_events(tf, ctx, maxlen):
  from tensorflow_lattice.python import kronecker_factored_lattice_lib as kfl
  evs = []
  rng = np.random.default_rng(ctx.seed + 1900)
  for n in range(1, maxlen + 1):
    vecs = np.array(list(itertools.product(range(-2, 3), repeat=n)), dtype=np.float32)   # every zero pattern
    for shape_kind in range(3):
      # embed the vectors along the reduced axis of tensors of different rank / axis position
      if shape_kind == 0:
        t = tf.constant(vecs)                      # (B, n), axis 1
        axis = 1
        get = lambda g: g
      elif shape_kind == 1:
        t = tf.constant(vecs.T.copy())             # (n, B), axis 0
        axis = 0
        get = lambda g: g.T
      else:
        t = tf.constant(np.stack([vecs, vecs[::-1]], axis=1))      # (B, 2, n), axis 2 (== -1)
        axis = -1
        get = lambda g: g[:, 0, :]
      dyv = float(rng.choice([1.0, -3.0]))
      with tf.GradientTape() as tape:
        tape.watch(t)
        y = kfl.custom_reduce_prod(t, axis)
        loss = tf.reduce_sum(y) * dyv
      g = get(tape.gradient(loss, t).numpy())
      for r in range(len(vecs)):
        evs.append({"ev": "ProdGrad", "t": [int(v) for v in vecs[r]], "dy": int(dyv),
                    "g": [int(round(float(v))) for v in g[r]], "site": SITE,
                    "call": {"t": vecs[r].tolist(), "axis": axis, "kind": shape_kind}})
      ctx.count(len(vecs), nontrivial_key=("prod", n, shape_kind))
    # the same vectors with some NON-ZERO entries scaled down by 2^-24 (every subset): a tiny factor is not a zero.
    # Everything stays exact in float32 (powers of two), so the returned gradient, scaled back by 2^(24 * number of
    # tiny factors among the other entries), must again be the integer product of the other mantissas.
    if n <= 3:
      tiny = 2.0 ** -24
      rows_t, rows_m, rows_k = [], [], []
      for m in itertools.product(range(-2, 3), repeat=n):
        nz = [i for i in range(n) if m[i] != 0]
        for r in range(1, len(nz) + 1):
          for sub in itertools.combinations(nz, r):
            flags = [1 if i in sub else 0 for i in range(n)]
            rows_t.append([m[i] * (tiny if flags[i] else 1.0) for i in range(n)])
            rows_m.append(list(m))
            rows_k.append([sum(flags) - flags[i] for i in range(n)])
      T = np.array(rows_t, dtype=np.float32)
      t = tf.constant(T)
      with tf.GradientTape() as tape:
        tape.watch(t)
        loss = tf.reduce_sum(kfl.custom_reduce_prod(t, 1)) * 1.0
      g = tape.gradient(loss, t).numpy().astype(np.float64)
      for r in range(len(rows_m)):
        scaled = [g[r][i] * (2.0 ** (24 * rows_k[r][i])) for i in range(n)]
        if not common.all_finite(scaled) or any(abs(v) > 1e6 for v in scaled):
          evs.append({"ev": "NonFinite", "site": SITE, "call": {"t": rows_t[r], "tiny": True}})
          continue
        evs.append({"ev": "ProdGrad", "t": [int(v) for v in rows_m[r]], "dy": 1, "g": [int(round(v)) for v in scaled],
                    "site": SITE, "call": {"t": rows_t[r], "axis": 1, "kind": "tiny factors (mantissas shown)"}})
      ctx.count(len(rows_m), nontrivial_key=("prod-tiny", n))
  return evs


def kfl_ref(tf, x, kernel, scale, bias, L, units, dims, terms, clip):
  """Plain expression: bias + mean_t scale * prod_d sum_i w[i,u,d,t] * phi_i(x[u,d])  (autodiff of reduce_prod)."""
  if clip:
    x = tf.clip_by_value(x, 0.0, L - 1.0)
  w = tf.reshape(kernel, [L, units, dims, terms])
  if L == 2:
    phi = tf.stack([1 - x, x], axis=0)                      # (L, B, units, dims)
  else:
    verts = tf.reshape(tf.range(L, dtype=tf.float32), [L, 1, 1, 1])
    phi = 1 - tf.minimum(tf.abs(verts - x[None]), 1.0)
  s = tf.einsum("ibud,iudt->budt", phi, w)                  # (B, units, dims, terms)
  p = tf.reduce_prod(s, axis=2)                             # (B, units, terms)
  return tf.reduce_mean(scale[None] * p, axis=-1) + bias[None]


def kfl_grad_events(tf, tfl, ctx, n):
  rng = np.random.default_rng(ctx.seed + 1901)
  evs = []
  for j in range(n):
    L = int(rng.choice([2, 3]))
    dims = int(rng.integers(1, 5))
    terms = int(rng.integers(1, 3))
    units = int(rng.choice([1, 2]))
    clip = bool(j % 2)
    layer = tfl.layers.KroneckerFactoredLattice(lattice_sizes=L, units=units, num_terms=terms, clip_inputs=clip)
    layer.build(tf.TensorShape((None, dims) if units == 1 else (None, units, dims)))
    W = (rng.integers(-3, 4, size=(1, L, units * dims, terms))).astype(np.float32)
    W[rng.random(W.shape) < 0.35] = 0.0                     # exact zeros -> zero factors in the product
    S = (rng.integers(-2, 3, size=(units, terms))).astype(np.float32)
    layer.kernel.assign(W)
    layer.scale.assign(S)
    B = 5
    X = (rng.integers(0, 16 * (L - 1) + 1, size=(B, units, dims)) / 16.0 + 1 / 32.0).astype(np.float32)
    X = np.minimum(X, L - 1 - 1 / 32.0)
    X[0] = np.floor(X[0])                                   # a grid point: phi has exact zeros (kernel/scale grads only)
    xt = tf.constant(X if units > 1 else X[:, 0, :])
    up = tf.constant(rng.integers(-2, 3, size=(B, units)).astype(np.float32))
    with tf.GradientTape(persistent=True) as tape:
      tape.watch(xt)
      y = layer(xt)
      loss = tf.reduce_sum(tf.reshape(y, [B, units]) * up)
      xr = tf.reshape(xt, [B, units, dims])
      yr = kfl_ref(tf, xr, layer.kernel, layer.scale, layer.bias, L, units, dims, terms, clip)
      loss_r = tf.reduce_sum(yr * up)
    for what, var in (("kernel", layer.kernel), ("scale", layer.scale), ("inputs", xt)):
      a = tape.gradient(loss, var)
      b = tape.gradient(loss_r, var)
      a = np.zeros(var.shape, np.float32) if a is None else a.numpy()
      b = np.zeros(var.shape, np.float32) if b is None else b.numpy()
      if what == "inputs":      # derivative w.r.t. inputs is not defined on grid lines: drop the grid-point row
        a, b = a[1:], b[1:]
      if not common.all_finite(a.reshape(-1)):
        evs.append({"ev": "NonFinite", "site": SITE, "call": {"what": what, "j": j}})
        continue
      sc = max(1.0, float(np.abs(b).max()))
      den = 2 ** max(0, 12 - int(np.ceil(np.log2(sc))))
      evs.append({"ev": "Pair", "what": "kfl_" + what, "a": [int(round(float(v) * den)) for v in a.reshape(-1)],
                  "b": [int(round(float(v) * den)) for v in b.reshape(-1)], "tolu": 4, "site": SITE,
                  "call": {"what": what, "L": L, "dims": dims, "terms": terms, "units": units, "clip": clip}})
    del tape
    ctx.count(3, nontrivial_key=("kfl", j))
  return evs


def lattice_grad_events(tf, tfl, ctx, n):
  rng = np.random.default_rng(ctx.seed + 1902)
  evs = []
  shapes = [[2], [3], [2, 2], [3, 2], [2, 3], [2, 2, 2], [3, 3], [2, 3, 2], [2, 2, 2, 2]]
  for j in range(n):
    sizes = shapes[j % len(shapes)]
    rank, nv = len(sizes), int(np.prod(sizes))
    interp = "hypercube" if j % 2 == 0 else "simplex"
    clip = bool((j // 2) % 2 == 0)
    layer = tfl.layers.Lattice(lattice_sizes=sizes, units=1, interpolation=interp, clip_inputs=clip)
    layer.build((None, rank))
    for rep in range(2):      # two different kernels: the gradient must not depend on the kernel's value
      layer.kernel.assign(rng.normal(size=(nv, 1)).astype(np.float32) * (1 + 10 * rep))
      xden = 16
      x = np.array([rng.integers(0 if not clip else -8, (s - 1) * xden + (9 if clip else 1)) / xden for s in sizes], dtype=np.float32)
      with tf.GradientTape() as tape:
        y = layer(tf.constant(x[None]))
      g = tape.gradient(y, layer.kernel).numpy().reshape(-1)
      evs.append({"ev": "LatGrad", "sizes": sizes, "interp": interp, "clip": clip, "xden": xden,
                  "x": [int(round(float(v) * xden)) for v in x], "gden": GDEN,
                  "g": [int(round(float(v) * GDEN)) for v in g], "tolu": 4, "site": SITE,
                  "call": {"sizes": sizes, "interp": interp, "clip": clip, "x": x.tolist()}})
    ctx.count(2, nontrivial_key=("lat", str(sizes), interp, clip))
  return evs


def pwl_cat_grad_events(tf, tfl, ctx, n):
  rng = np.random.default_rng(ctx.seed + 1903)
  evs = []
  kps = [[0, 1], [0, 1, 3], [-1, 0, 2, 5], [0, 2, 3, 4, 8]]
  for j in range(n):
    kp = kps[j % len(kps)]
    cyclic = bool(j % 3 == 0 and len(kp) > 2)
    layer = tfl.layers.PWLCalibration(input_keypoints=[float(v) for v in kp], units=1, is_cyclic=cyclic)
    layer.build((None, 1))
    layer.kernel.assign(rng.normal(size=layer.kernel.shape).astype(np.float32))
    x = float(rng.integers(16 * kp[0] - 16, 16 * kp[-1] + 17)) / 16.0
    with tf.GradientTape() as tape:
      y = layer(tf.constant([[x]], dtype=tf.float32))
    g = tape.gradient(y, layer.kernel).numpy().reshape(-1)
    evs.append({"ev": "PwlGrad", "kp": [rat(v) for v in kp], "cyclic": cyclic, "xden": 16, "x": int(round(x * 16)),
                "gden": GDEN, "g": [int(round(float(v) * GDEN)) for v in g], "tolu": 4, "site": SITE,
                "call": {"kp": kp, "cyclic": cyclic, "x": x}})
    nb = int(rng.integers(2, 6))
    default = [None, -1, nb - 1][j % 3]
    cl = tfl.layers.CategoricalCalibration(num_buckets=nb, units=1, default_input_value=default)
    cl.build((None, 1))
    cl.kernel.assign(rng.normal(size=(nb, 1)).astype(np.float32))
    idx = int(rng.integers(0, nb)) if (default is None or j % 2) else int(default)
    with tf.GradientTape() as tape:
      y = cl(tf.constant([[idx]], dtype=tf.int32))
    g = tape.gradient(y, cl.kernel).numpy().reshape(-1)
    evs.append({"ev": "CatGrad", "nb": nb, "idx": idx, "hasDefault": default is not None,
                "default": int(default) if default is not None else 0, "gden": GDEN,
                "g": [int(round(float(v) * GDEN)) for v in g], "tolu": 2, "site": SITE,
                "call": {"nb": nb, "idx": idx, "default": default}})
    ctx.count(2, nontrivial_key=("pwlcat", j))
  return evs


def run(ctx):
  tf, tfl = common.import_tf()
  ctx.rule = ("ProdGrad: every integer vector over -2..2 of length 1..4 (quick) / 1..5 (thorough) - i.e. every pattern of "
              "exact zeros - embedded along each axis position of tensors of rank 2-3, gradient by tf.GradientTape; "
              "Pair: KFL layer gradients w.r.t. kernel, scale, inputs vs autodiff of the plain product expression for "
              "random integer weights with 35% exact zeros; LatGrad/PwlGrad/CatGrad: d out / d kernel at random dyadic "
              "points for two different kernels")
  ctx.model("MC_Gradients", "Grad_q.cfg" if ctx.quick else "Grad_t.cfg")
  ctx.exhaustive = True
  events = prod_grad_events(tf, ctx, 4 if ctx.quick else 5)
  ctx.sample({k: events[len(events) // 2].get(k) for k in ("ev", "t", "dy", "g")})
  events += kfl_grad_events(tf, tfl, ctx, 40 if ctx.quick else 600)
  events += lattice_grad_events(tf, tfl, ctx, 36 if ctx.quick else 400)
  events += pwl_cat_grad_events(tf, tfl, ctx, 24 if ctx.quick else 300)
  ctx.sample({k: events[-1].get(k) for k in ("ev", "nb", "idx", "g", "gden")})
  ctx.validate("TraceGradients", events)
  return ctx.finish()


def replay(ctx, path):
  """The cases are regenerated from the seed recorded in the replay file: re-execute and compare."""
  return common.rerun_replay(ctx, path, run)
