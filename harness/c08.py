"""C08 - Iterative (Dykstra) projection keeps feasible weights and converges to the L2-nearest point.

spec: DykstraProps.tla (ProjectionExact / LandsInSet / Bookkeeping / FixedPointStep on LatticeConstraint),
      MC_Dykstra.tla (Dykstra-only configuration spaces), TraceDykstra.tla (code -> spec)
"""
import itertools
import json
from fractions import Fraction

import numpy as np

import common
import latcfg
import c04
from common import log

NS = [4, 16, 64, 256]
# tolerance of the variational inequality <x0 - p, y - p> <= VTOL * scale^2: measured on the unchanged tree the left side
# is below 1e-6 * scale^2 for the converged PWL projection and the fixed-point rounding contributes about 3e-3 * scale
VTOL = 0.004
DEN = 2048          # Conv events (values within +-2): products stay far below 2^31
PDEN = 4096         # PwlConv events (values within +-3)


def dyk_kwargs(c):
  kw = latcfg.kwargs_of(c)
  kw.pop("output_min")
  kw.pop("output_max")
  return kw


def run_dykstra(tf, c, K, n):
  from tensorflow_lattice.python import lattice_lib
  return lattice_lib.project_by_dykstra(tf.constant(K, dtype=tf.float32), num_iterations=n, **dyk_kwargs(c)).numpy()


def ints(col, den=DEN):
  return [int(round(float(v) * den)) for v in col]


def dyk_events(tf, ctx, files):
  evs = []
  for cf in files:
    for c in cf["cfgs"]:
      nv = int(np.prod(c["sizes"]))
      K = latcfg.grid_kernels(cf["vals"], nv)
      out = run_dykstra(tf, c, K, c["iters"])
      for u in range(K.shape[1]):
        e = 20
        evs.append({"ev": "Dyk", "cfg": c, "n": c["iters"], "den": 2 ** e, "tolu": 32, "exact": True,
                    "w0": [common.fx(v, e) for v in K[:, u]], "w": [common.fx(v, e) for v in out[:, u]],
                    "site": {"layer": "lattice", "ev": "Dyk"},
                    "call": {"path": "Dyk", "cfg": c, "w0": [float(v) for v in K[:, u]], "n": c["iters"]}})
        ctx.count(1, nontrivial_key=(str(c), tuple(K[:, u])) if not np.allclose(K[:, u], out[:, u]) else None)
  return evs


def candidates(sizes):
  idx = np.array(list(itertools.product(*[range(s) for s in sizes])))       # row-major, as the kernel is laid out
  out = [np.ones(len(idx), dtype=int)]
  for d, s in enumerate(sizes):
    out.append(idx[:, d])
    for k in range(1, s):
      out.append((idx[:, d] >= k).astype(int))
  out.append(idx.sum(axis=1))
  for v in idx:
    out.append(np.abs(idx - v).sum(axis=1))
    out.append(np.abs(idx - v).max(axis=1))
  res = []
  for y in out:
    res.append([int(t) for t in y])
    res.append([-int(t) for t in y])
  return res


def conv_event(tf, tfl, c, K):
  """One Conv event per column of K for configuration c (families only, no bounds)."""
  evs = []
  res = [run_dykstra(tf, c, K, n) for n in NS]
  last = res[-1]
  rp = run_dykstra(tf, c, last, 1)
  cs = dict(c)
  cs.update({"iters": NS[-1], "strict": True, "hasMin": False, "hasMax": False})
  strictw = latcfg.run_constraint(tf, tfl, cs, K)
  nearest = not c["rdom"] and not c["juni"]
  for u in range(K.shape[1]):
    scale = max(1.0, float(np.abs(K[:, u]).max()))
    ev = {"ev": "Conv", "cfg": c, "den": DEN, "w0": ints(K[:, u]), "ns": NS,
          "ws": [ints(r[:, u]) for r in res], "rp": ints(rp[:, u]), "strictw": ints(strictw[:, u]),
          "nearest": nearest, "tolu": 3 * DEN // 512, "ctol": max(3 * DEN // 512, int(DEN * scale / 128)),
          "vtol": int(VTOL * DEN * DEN * scale * scale), "stol": max(4 * DEN // 512, int(DEN * scale / 32)),
          "test": [-1, 0, 1],
          "site": {"layer": "lattice", "ev": "Conv"},
          "call": {"path": "Conv", "cfg": c, "w0": [float(v) for v in K[:, u]]}}
    if int(np.prod(c["sizes"])) > 9:
      # the enumerated test set would have 3^vertices members: structured candidates instead (the trace module keeps
      # the feasible ones): constants, steps and ramps along each dimension, distances to each vertex, either sign
      ev["test"] = []
      ev["tests"] = candidates(c["sizes"])
    if not common.all_finite(last[:, u]) or not common.all_finite(strictw[:, u]):
      ev = {"ev": "NonFinite", "cfg": c, "site": ev["site"], "call": ev["call"]}
    evs.append(ev)
  return evs


def conv_cfgs(ctx, files, rng):
  cfgs = []
  seen = set()
  for cf in files:
    for c in cf["cfgs"]:
      key = json.dumps({k: c[k] for k in c if k != "iters"}, sort_keys=True)
      if key in seen or int(np.prod(c["sizes"])) > (6 if ctx.quick else 9):
        continue
      seen.add(key)
      cfgs.append(c)
  rng.shuffle(cfgs)
  cfgs = cfgs[:14 if ctx.quick else 120]
  # every family on the two asymmetric shapes, in both roles and directions: the group schedules (parities, skip
  # conditions of size-2 dimensions) depend on which dimension is the long one
  for sizes in ([2, 3], [3, 2]):
    for m, cd in ((1, 2), (2, 1)):
      for direction in (1, -1):
        for fam in ("edge", "trap"):
          c = latcfg.base(sizes)
          c["mono"][m - 1] = 1
          c[fam] = [[m, cd, direction]]
          c.update({"iters": 1, "strict": False})
          cfgs.append(c)
      for fam in ("mdom", "jmono"):
        c = latcfg.base(sizes)
        c["mono"] = [1, 1] if fam == "mdom" else [0, 0]
        c[fam] = [[m, cd]]
        c.update({"iters": 1, "strict": False})
        cfgs.append(c)
    c = latcfg.base(sizes)
    c["mono"] = [1, 1]
    c.update({"iters": 1, "strict": False})
    cfgs.append(c)
    c = latcfg.base(sizes)
    c["uni"] = [(-1 if s == 3 else 0) for s in sizes]
    c["mono"] = [(1 if s == 2 else 0) for s in sizes]
    c.update({"iters": 1, "strict": False})
    cfgs.append(c)
  # rank 3: two trusts of the same kind sharing their conditional (or main) feature, either direction - each trust
  # keeps its own Dykstra correction
  for fam in ("trap", "edge"):
    for t1, t2 in (([1, 3, 1], [2, 3, 1]), ([1, 3, 1], [2, 3, -1]), ([1, 2, 1], [1, 3, -1])):
      c = latcfg.base([2, 2, 2])
      c["mono"] = [1, 1, 0] if t1[0] != t2[0] else [1, 0, 0]
      c[fam] = [t1, t2]
      c.update({"iters": 1, "strict": False})
      cfgs.append(c)
  # larger lattices (the enumerated spaces stop at 9 vertices): index arithmetic at the last vertices of long
  # dimensions, jointly unimodal pairs with neighbours on the far edge
  big = []
  for sizes, dirs in (([5, 5], "valley"), ([5, 5], "peak"), ([5, 4], "valley"), ([4, 6], "peak")):
    c = latcfg.base(sizes)
    c["juni"] = [[[1, 2], dirs]]
    big.append(c)
  for sizes in ([5], [6]):
    c = latcfg.base(sizes)
    c["uni"] = [1 if sizes[0] == 5 else -1]
    big.append(c)
  for sizes, fam in (([4, 4], "edge"), ([5, 3], "trap"), ([3, 5], "edge"), ([4, 3], "mdom"), ([3, 4], "jmono")):
    c = latcfg.base(sizes)
    c["mono"] = [1, 1] if fam == "mdom" else ([0, 0] if fam == "jmono" else [1, 0])
    c[fam] = [[1, 2, 1]] if fam in ("edge", "trap") else [[1, 2]]
    big.append(c)
  if not ctx.quick:
    c = latcfg.base([3, 3, 5])
    c["juni"] = [[[2, 3], "valley"]]
    c["mono"] = [1, 0, 0]
    big.append(c)
  for c in big:
    c.update({"iters": 1, "strict": False})
    cfgs.append(c)
  # random family mixes on small lattices
  n = 6 if ctx.quick else 80
  while n > 0:
    c = latcfg.random_cfg(rng, max_rank=3, max_size=3, max_vertices=8 if ctx.quick else 9)
    c["hasMin"] = c["hasMax"] = False
    c["strict"] = False
    cfgs.append(c)
    n -= 1
  return cfgs


def pwl_events(tf, ctx, rng, n):
  evs = []
  for _ in range(n):
    nk = int(rng.integers(2, 5))
    mono = int(rng.choice([-1, 1]))
    minT, maxT = str(rng.choice(["N", "B", "C"])), str(rng.choice(["N", "B", "C"]))
    if minT == "N" and maxT == "N":
      maxT = "B"
    if len(evs) % 3 == 0:
      minT, maxT = "B", "B"
    hi = int(rng.choice([1, 2]))
    c = {"mono": mono, "conv": 0, "minT": minT, "maxT": maxT, "omin": [0, 1], "omax": [hi, 1],
         "len": [[1, 1]] * (nk - 1), "iters": 300}
    K = (rng.integers(-3 * 64, 3 * 64 + 1, size=(nk, 6)) / 64.0).astype(np.float32)
    # two columns on which both bounds are active at once (the first output beyond one bound, the last beyond the
    # other): the joint bound/monotonicity projection has a branch of its own for this case
    for u in (0, 1):
      steps = np.abs(rng.integers(32, 3 * 64 + 1, size=nk - 1)) / 64.0 + (hi + 1.0) / (nk - 1)
      first = -float(rng.integers(8, 64)) / 64.0 if mono == 1 else hi + float(rng.integers(8, 64)) / 64.0
      K[0, u] = first
      K[1:, u] = mono * steps
    out = c04.run_constraint(tf, c, K)
    for u in range(K.shape[1]):
      scale = max(1.0, float(np.abs(K[:, u]).max()))
      evs.append({"ev": "PwlConv", "cfg": c, "den": PDEN, "w0": ints(K[:, u], PDEN), "w": ints(out[:, u], PDEN),
                  "vtol": int(VTOL * PDEN * PDEN * scale * scale), "test": list(range(-hi - 1, hi + 2)),
                  "site": {"layer": "pwl", "ev": "PwlConv"},
                  "call": {"path": "PwlConv", "cfg": c, "w0": [float(v) for v in K[:, u]]}})
      ctx.count(1, nontrivial_key=("pwl", str(c), tuple(K[:, u])))
  return evs


def pwl_fixed_events(tf, ctx, rng, n):
  """Feasible multi-unit PWL kernels (monotone, convex/concave, inside the bounds; every unit spanning more than half
  of the output range, so that the units together exceed it) through project_all_constraints for several iteration
  counts: the statement says feasible kernels come back unchanged."""
  evs = []
  for j in range(n):
    nk = int(rng.integers(3, 6))
    mono = int(rng.choice([-1, 1]))
    conv = int(rng.choice([-1, 0, 1]))
    hi = int(rng.choice([1, 2]))
    minT, maxT = [("B", "B"), ("N", "B"), ("B", "N")][j % 3]
    units = int(rng.choice([2, 3, 4]))
    cols = []
    for _ in range(units):
      steps = np.sort(rng.integers(1, 9, size=nk - 1)).astype(np.float64)      # increasing slopes: convex for mono = 1
      if conv * mono < 0:
        steps = steps[::-1]
      if conv == 0:
        rng.shuffle(steps)
      total = float(rng.integers(36, 65)) / 64.0 * hi                         # 0.56 .. 1.0 of the range, on the 1/64 grid
      h = np.floor(steps / steps.sum() * total * 64.0) / 64.0
      if conv != 0:                                                           # flooring must not disturb the slope order
        h = np.sort(h) if conv * mono > 0 else np.sort(h)[::-1]
      first = 0.0 if mono == 1 else float(hi)
      if mono == 1 and minT == "N":
        first = float(hi) - h.sum()
      if mono == -1 and maxT == "N":
        first = h.sum()
      cols.append(np.concatenate([[first], mono * h]))
    K = np.stack(cols, axis=1).astype(np.float32)
    for iters in (1, 3, 8):
      c = {"mono": mono, "conv": conv, "minT": minT, "maxT": maxT, "omin": [0, 1], "omax": [hi, 1],
           "len": [[1, 1]] * (nk - 1), "iters": iters}
      out = c04.run_constraint(tf, c, K)
      for u in range(units):
        evs.append({"ev": "PwlFixed", "cfg": c, "den": PDEN, "w0": ints(K[:, u], PDEN), "w": ints(out[:, u], PDEN), "tolu": 8,
                    "site": {"layer": "pwl", "ev": "PwlFixed"},
                    "call": {"path": "PwlFixed", "cfg": c, "K": K.tolist(), "unit": u}})
      ctx.count(units, nontrivial_key=("pwlfixed", j, iters))
  return evs


def run(ctx):
  tf, tfl = common.import_tf()
  ctx.rule = ("Dyk: every configuration of the Dykstra-only TLC spaces x every integer kernel through "
              "project_by_dykstra; Conv: one event per (family mix, dyadic kernel) with results for "
              "num_iterations in %s, the re-projection, the strict constraint and a TLC-enumerated feasible test "
              "set for the variational inequality; PwlConv: monotone+bounded PWL projections; non-trivial = the "
              "projection moved the kernel" % NS)
  if ctx.quick:
    ctx.model("MC_Dykstra", "Dyk_22q.cfg")
  else:
    for m in ("Dyk_22.cfg", "Dyk_32.cfg", "Dyk_33.cfg", "Dyk_222.cfg"):
      ctx.model("MC_Dykstra", m, timeout=10800)
  ctx.exhaustive = True
  files = ctx.tlc_cases("GenDykstra", "GenDyk.cfg", env={"VERIF_TIER": ctx.tier})
  events = dyk_events(tf, ctx, files)
  ctx.sample({k: events[len(events) // 2].get(k) for k in ("ev", "cfg", "n", "w0", "w", "den")})
  rng = np.random.default_rng(ctx.seed + 808)
  cevents = []
  for c in conv_cfgs(ctx, files, rng):
    nv = int(np.prod(c["sizes"]))
    K = (rng.integers(-128, 129, size=(nv, 3 if ctx.quick else 6)) / 64.0).astype(np.float32)
    K[:, 0] = np.sort(K[:, 0])[::-1]      # one anti-sorted column: far infeasible
    try:
      cevents += conv_event(tf, tfl, c, K)
      ctx.count(K.shape[1], nontrivial_key=("conv", str(c)))
    except latcfg.Rejected:
      continue
    except Exception as ex:  # pylint: disable=broad-except
      cevents.append(latcfg.raised_event(c, "Conv", ex))
  if cevents:
    ctx.sample({k: cevents[0].get(k) for k in ("ev", "cfg", "w0", "ws", "rp", "strictw", "nearest", "den")})
  pevents = pwl_events(tf, ctx, rng, 8 if ctx.quick else 100) + pwl_fixed_events(tf, ctx, rng, 12 if ctx.quick else 150)
  log("  %d Dyk events, %d Conv events, %d PwlConv events" % (len(events), len(cevents), len(pevents)))
  ctx.validate("TraceDykstra", events)
  ctx.validate("TraceDykstra", cevents + pevents, shards=common.NCPU)
  return ctx.finish()


def replay(ctx, path):
  tf, tfl = common.import_tf()
  with open(path) as f:
    rec = json.load(f)
  events = []
  for ev in rec["events"]:
    call = ev["call"]
    c = call["cfg"]
    K = np.array(call["w0"], dtype=np.float32).reshape(-1, 1)
    if call["path"] == "Conv":
      events += conv_event(tf, tfl, c, K)
    elif call["path"] == "PwlFixed":
      K = np.array(call["K"], dtype=np.float32)
      out = c04.run_constraint(tf, c, K)
      e2 = dict(ev)
      e2["w"] = ints(out[:, call["unit"]], PDEN)
      events.append(e2)
      continue
    elif call["path"] == "PwlConv":
      out = c04.run_constraint(tf, c, K)
      e2 = dict(ev)
      e2["w"] = ints(out[:, 0], PDEN)
      events.append(e2)
    else:
      out = run_dykstra(tf, c, K, call["n"])
      e2 = dict(ev)
      e2["w"] = [common.fx(v, 20) for v in out[:, 0]]
      events.append(e2)
    log("replay %s cfg=%s w0=%s" % (call["path"], c, call["w0"]))
  ctx.validate("TraceDykstra", events, shards=1)
  return ctx.finish()
