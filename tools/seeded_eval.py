#!/usr/bin/env python3
"""Evaluates one seeded change:  tools/seeded_eval.py <dir with patch.diff, demo.py, meta.json> [--tier quick] [--suite]

Creates a scratch worktree of /repo under /tmp, applies the patch there, then
  1. (--suite) runs the pinned test suite on it and checks the 281 stable tests against BASELINE.json
  2. runs demo.py against the patched worktree (must exit != 0) and against /repo (must exit 0)
  3. runs ./check <property> against the patched worktree (VERIF_REPO / VERIF_SCRATCH: /repo and the committed
     evidence are not touched) and reports whether a VIOLATION line for the property was printed
and removes the worktree.  Prints one JSON line with the outcome."""
import argparse
import json
import os
import shutil
import subprocess
import sys
import time

VERIF = os.path.dirname(os.path.dirname(os.path.abspath(__file__)))
ENV = dict(os.environ, TF_CPP_MIN_LOG_LEVEL="3", CUDA_VISIBLE_DEVICES="", PYTHONHASHSEED="0")


def sh(cmd, **kw):
  return subprocess.run(cmd, stdout=subprocess.PIPE, stderr=subprocess.STDOUT, text=True, **kw)


def main():
  ap = argparse.ArgumentParser()
  ap.add_argument("dir")
  ap.add_argument("--tier", default="quick")
  ap.add_argument("--suite", action="store_true")
  ap.add_argument("--props", default=None, help="comma separated property ids to run (default: the one in meta.json)")
  a = ap.parse_args()
  d = os.path.abspath(a.dir)
  name = os.path.basename(d.rstrip("/"))
  meta = json.load(open(os.path.join(d, "meta.json")))
  props = a.props.split(",") if a.props else [meta["property"]]
  wt = "/tmp/seedeval_%s_%d" % (name, os.getpid())
  scratch = wt + "_scratch"
  res = {"id": name, "property": meta["property"], "tier": a.tier}
  sh(["git", "-C", "/repo", "worktree", "add", "--detach", wt, "HEAD"])
  try:
    r = sh(["git", "-C", wt, "apply", os.path.join(d, "patch.diff")])
    if r.returncode != 0:
      res["error"] = "patch does not apply: " + r.stdout[-300:]
      print(json.dumps(res))
      return 2
    penv = dict(ENV, PYTHONPATH=wt)
    if a.suite:
      t0 = time.time()
      x = wt + ".junit.xml"
      sh(["/venv/bin/python", "-m", "pytest", "-q", "-p", "no:cacheprovider", "--timeout=900",
          "--continue-on-collection-errors", "--junitxml=" + x], cwd=wt, env=penv)
      b = sh(["/venv/bin/python", os.path.join(VERIF, "harness", "baseline_check.py"), x])
      res["suite"] = {"rc": b.returncode, "line": b.stdout.strip().splitlines()[0] if b.stdout.strip() else "", "wall_s": round(time.time() - t0)}
      if os.path.exists(x):
        os.remove(x)
    demo = os.path.join(d, "demo.py")
    if os.path.exists(demo):
      r1 = sh(["/venv/bin/python", demo], env=penv, cwd="/tmp")
      r0 = sh(["/venv/bin/python", demo], env=dict(ENV, PYTHONPATH="/repo"), cwd="/tmp")
      res["demo"] = {"with_change_rc": r1.returncode, "unchanged_rc": r0.returncode}
    res["checks"] = {}
    for p in props:
      t0 = time.time()
      env = dict(ENV, VERIF_REPO=wt, VERIF_SCRATCH=scratch, VERIF_TIER=a.tier)
      r = sh([os.path.join(VERIF, "check"), p, "--tier", a.tier], env=env, cwd=VERIF)
      lines = [l for l in r.stdout.splitlines() if l.startswith(("VIOLATION", "DRIFT", "KNOWN-FINDING", "MACHINERY"))]
      res["checks"][p] = {"rc": r.returncode, "violations": [l[:260] for l in lines if l.startswith("VIOLATION")][:6],
                          "drift": len([l for l in lines if l.startswith("DRIFT")]),
                          "machinery": [l[:200] for l in lines if l.startswith("MACHINERY")][:2],
                          "wall_s": round(time.time() - t0)}
      if r.returncode == 2:
        with open("/tmp/seedeval_%s_%s.log" % (name, p), "w") as f:
          f.write(r.stdout)
    res["detected"] = any(c["rc"] == 1 and c["violations"] for c in res["checks"].values())
  finally:
    sh(["git", "-C", "/repo", "worktree", "remove", "--force", wt])
    shutil.rmtree(scratch, ignore_errors=True)
    shutil.rmtree(wt, ignore_errors=True)
  print(json.dumps(res))
  return 0


if __name__ == "__main__":
  sys.exit(main())
