#!/usr/bin/env python3
"""Writes seeded/INDEX.md: one row per confirmed seeded change (from seeded/*/meta.json)."""
import glob
import json
import os

VERIF = os.path.dirname(os.path.dirname(os.path.abspath(__file__)))
rows = []
for p in sorted(glob.glob(os.path.join(VERIF, "seeded", "*", "meta.json"))):
  m = json.load(open(p))
  caught = "; ".join("%s: %s" % (k, ", ".join(v["clauses"]) or ("exit %s" % v["exit"]))
                     for k, v in sorted(m.get("check_result_quick_tier", {}).items()))
  rows.append("| %s | %s | %s | %s | %s |" % (m["id"], m["property"], (m.get("summary") or "").replace("|", "/").replace("\n", " ")[:260],
                                           (m.get("needs") or "").replace("|", "/").replace("\n", " ")[:220],
                                           ("yes - " + caught) if m.get("detected") else "NO"))
with open(os.path.join(VERIF, "seeded", "INDEX.md"), "w") as f:
  f.write("# Seeded changes (written by independent sub-agents, confirmed with tools/seeded_eval.py --suite)\n\n"
          "Each directory holds patch.diff (applies to /repo HEAD with git apply), demo.py (fails with the change, passes "
          "without) and meta.json. To run a check against one: `tools/seeded_eval.py seeded/<id>` (scratch worktree; /repo "
          "is not touched), or `git -C /repo apply seeded/<id>/patch.diff; ./check <property>; git -C /repo checkout -- .`.\n\n"
          "| id | property | change | needs | caught by the quick check (clauses) |\n|---|---|---|---|---|\n")
  f.write("\n".join(rows) + "\n")
print("%d rows" % len(rows))
