#!/usr/bin/env python3
"""Copies confirmed seeded changes from the sub-agents' delivery directory into /verif/seeded/<id>/.

usage: tools/collect_seeded.py <delivery dir> <eval dir (suite + demo + check)> [<eval dir (latest check run)>]
A change is kept only if, in my own runs, the 281 stable tests still pass with it, its demonstration fails with it and
passes without it. meta.json records what it breaks, what it needs to manifest, what was run and which check caught it."""
import json
import os
import shutil
import sys

VERIF = os.path.dirname(os.path.dirname(os.path.abspath(__file__)))


def main(src, evald, latest=None):
  kept, dropped = [], []
  for name in sorted(os.listdir(src)):
    d = os.path.join(src, name)
    if not os.path.exists(os.path.join(d, "patch.diff")):
      continue
    ep = os.path.join(evald, name + ".json")
    if not os.path.exists(ep):
      dropped.append((name, "not evaluated yet"))
      continue
    try:
      ev = json.load(open(ep))
    except ValueError:
      dropped.append((name, "evaluation unreadable"))
      continue
    suite = ev.get("suite", {})
    demo = ev.get("demo", {})
    if suite.get("rc") != 0 or demo.get("with_change_rc") in (0, None) or demo.get("unchanged_rc") != 0:
      dropped.append((name, "not confirmed: suite %s demo %s" % (suite.get("line"), demo)))
      continue
    checks = ev.get("checks", {})
    if latest and os.path.exists(os.path.join(latest, name + ".json")):
      try:
        checks = json.load(open(os.path.join(latest, name + ".json"))).get("checks", checks)
      except ValueError:
        pass
    meta = json.load(open(os.path.join(d, "meta.json")))
    out = os.path.join(VERIF, "seeded", name)
    os.makedirs(out, exist_ok=True)
    shutil.copy(os.path.join(d, "patch.diff"), os.path.join(out, "patch.diff"))
    shutil.copy(os.path.join(d, "demo.py"), os.path.join(out, "demo.py"))
    caught = {p: {"exit": c["rc"], "clauses": sorted({v.split("clause=")[1].split(" ")[0] for v in c["violations"] if "clause=" in v})}
              for p, c in checks.items()}
    json.dump({
        "id": name, "property": meta.get("property"), "summary": meta.get("summary"),
        "needs": meta.get("needs"), "author": "independent sub-agent given only the property text and a scratch worktree",
        "authors_runs": meta.get("ran"),
        "confirmed_by_me": {
            "pinned_suite_with_change": suite.get("line"),
            "demo_exit_with_change": demo.get("with_change_rc"), "demo_exit_unchanged": demo.get("unchanged_rc"),
            "how": "tools/seeded_eval.py <dir> --suite (scratch worktree of /repo HEAD, patch applied with git apply)"},
        "check_result_quick_tier": caught,
        "detected": any(c["exit"] == 1 and c["clauses"] for c in caught.values()),
    }, open(os.path.join(out, "meta.json"), "w"), indent=1)
    kept.append(name)
  print("kept %d: %s" % (len(kept), " ".join(kept)))
  for n, why in dropped:
    print("dropped %s: %s" % (n, why))


if __name__ == "__main__":
  main(*sys.argv[1:4])
