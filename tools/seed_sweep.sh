#!/bin/sh
# tools/seed_sweep.sh "<seeds>" [tier] [props...]: runs every check for each seed against /repo and prints one line per run
# plus every VIOLATION / MACHINERY-ERROR line (used to look for seed-dependent false alarms on the unchanged tree).
SEEDS="${1:-1 2 3}"; TIER="${2:-quick}"; shift; shift
PROPS="${*:-C01 C02 C03 C04 C05 C06 C07 C08 C09 C10 C11 C12 C13 C14 C15 C16 C17 C18 C19 C20}"
HERE="$(cd "$(dirname "$0")/.." && pwd)"
export VERIF_SCRATCH="${VERIF_SCRATCH:-/tmp/seed_sweep_$$}"
for s in $SEEDS; do for p in $PROPS; do
  out=$(VERIF_SEED=$s "$HERE/check" $p --tier $TIER 2>&1); rc=$?
  echo "seed=$s $p rc=$rc $(echo "$out" | grep "^$p $TIER:" | tail -1)"
  echo "$out" | grep "^VIOLATION\|^MACHINERY" | cut -c1-400
done; done
rm -rf "$VERIF_SCRATCH"
