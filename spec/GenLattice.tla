----------------------------- MODULE GenLattice -----------------------------
(* spec -> code: the configuration spaces / kernel domains of the exhaustive models, as JSON *)
EXTENDS MC_LatticeConstraint
Tier == IOEnv.VERIF_TIER
Out == IF Tier = "quick"
       THEN <<CaseFile(SpaceQ1, DomQ1), CaseFile(SpaceQ2, DomQ2), CaseFile(SpaceQ3, DomQ3)>>
       ELSE <<CaseFile(SpaceT1, DomT1), CaseFile(SpaceT2, DomT2), CaseFile(SpaceT3b, DomT3),
              CaseFile(SpaceT4, DomT4), CaseFile(SpaceT5, DomT5)>>
ASSUME ndJsonSerialize(IOEnv.CASES_OUT, Out)
=============================================================================
