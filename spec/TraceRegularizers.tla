-------------------------- MODULE TraceRegularizers --------------------------
(* code -> spec for C13: regularizer(kernel) of the real classes must equal the documented sums. *)
(*  Lat [reg |-> "laplacian"|"torsion", sizes, l1, l2 (seqs of [n,d]: per dimension for laplacian,  *)
(*       per dimension pair in lexicographic order for torsion), kden, cols (one flat kernel per unit), oden, out] *)
(*  Pwl [reg |-> "laplacian"|"hessian"|"wrinkle", cyclic, l1, l2 ([n,d]), kden, cols, oden, out]     *)
EXTENDS Regularizers, TraceBase
VARIABLE l
tvars == <<l>>
Nm(p) == Norm(p[1], p[2])
PairIndex(c, p) == Cardinality({q \in DimPairs(c) : q[1] < p[1] \/ (q[1] = p[1] /\ q[2] <= p[2])})
Want(e) ==
  IF e.ev = "Lat" THEN
    LET c == [sizes |-> e.sizes]
        per(a) == [d \in Dims(c) |-> Nm(a[d])]
        pw(a) == [p \in DimPairs(c) |-> Nm(a[PairIndex(c, p)])]
    IN RSumSeq([u \in 1..Len(e.cols) |->
          LET x == Unflat(c, FxSeq(e.cols[u], e.kden))
          IN IF e.reg = "laplacian" THEN LatLaplacian(c, x, per(e.l1), per(e.l2))
             ELSE LatTorsion(c, x, pw(e.l1), pw(e.l2))])
  ELSE RSumSeq([u \in 1..Len(e.cols) |->
          LET k == FxSeq(e.cols[u], e.kden)
          IN CASE e.reg = "laplacian" -> PwlLaplacian(k, e.cyclic, Nm(e.l1), Nm(e.l2))
               [] e.reg = "hessian" -> PwlHessian(k, e.cyclic, Nm(e.l1), Nm(e.l2))
               [] e.reg = "wrinkle" -> PwlWrinkle(k, e.cyclic, Nm(e.l1), Nm(e.l2))])
Clauses(e) == IF e.ev = "Raised" THEN {"Raised"} ELSE IF e.ev = "NonFinite" THEN {"Finite"}
              ELSE IF FxNear(e.out, e.tolu, e.oden, Want(e)) THEN {} ELSE {"Penalty:" \o e.reg}
TraceInit == l = 1
TraceNext == /\ l <= Len(Trace) /\ l' = l + 1 /\ Record(Trace[l].i, Clauses(Trace[l]))
TraceSpec == TraceInit /\ [][TraceNext]_tvars
ASSUME TLCSet(1, {})
=============================================================================
