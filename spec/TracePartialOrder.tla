-------------------------- MODULE TracePartialOrder --------------------------
(* code -> spec for C06: LinearConstraints / CategoricalCalibrationConstraints (and the layers) *)
(* Event: [ev |-> "Constrain", cfg (PartialOrderOps record, ranges as [n,d]; norm 0/1/2),      *)
(*         den, w0, w (ints over den), sg (exact signs of the result), tolu, exact]            *)
EXTENDS PartialOrderOps, TraceBase
VARIABLE l
tvars == <<l>>
Nm(p) == Norm(p[1], p[2])
Cfg(e) == IF e.cfg.kind = "cat" THEN [e.cfg EXCEPT !.omin = Nm(e.cfg.omin), !.omax = Nm(e.cfg.omax)]
          ELSE [e.cfg EXCEPT !.range = [i \in 1..Len(e.cfg.range) |-> Nm(e.cfg.range[i])]]
SignsExact(c, sg) == \A i \in 1..Len(sg) : (c.mono[i] = 1 => sg[i] >= 0) /\ (c.mono[i] = -1 => sg[i] <= 0)
\* sum of squares of the fixed-point values, scaled down to keep within 32 bits
SumSq(ints, k) == LET RECURSIVE S(_) S(n) == IF n = 0 THEN 0 ELSE (ints[n] \div k) * (ints[n] \div k) + S(n - 1)
                  IN S(Len(ints))
Clauses(e) ==
  IF e.ev = "Raised" THEN {"Raised"} ELSE IF e.ev = "NonFinite" THEN {"Finite"} ELSE
  LET c == Cfg(e)
      x == FxSeq(e.w, e.den)  x0 == FxSeq(e.w0, e.den)  tol == Norm(e.tolu, e.den)
  IN IF c.kind = "cat" THEN
       (IF ~PairsOK(c.pairs, x, tol) THEN {"PairsOK"} ELSE {})
       \cup (IF ~CatBoundsOK(c, x, tol) THEN {"BoundsOK"} ELSE {})
       \cup (IF CatFeasible(c, x0) /\ \E i \in 1..Len(x) : ~RNear(x[i], x0[i], tol) THEN {"FeasibleFixed"} ELSE {})
       \cup (IF e.exact /\ (LET p == CatProject(c, x0) IN \E i \in 1..Len(x) : ~FxNear(e.w[i], e.tolu, e.den, p[i]))
             THEN {"DRIFT:CatProject"} ELSE {})
     ELSE
       (IF ~SignsExact(c, e.sg) THEN {"SignsOK"} ELSE {})
       \cup (IF ~MDomOK(c, x, tol) THEN {"MonotonicDominanceOK"} ELSE {})
       \cup (IF ~RDomOK(c, x, RMul(tol, R(8))) THEN {"RangeDominanceOK"} ELSE {})
       \cup (IF c.norm = 1 /\ ~L1NormOK(c, x, RMul(tol, R(8))) THEN {"NormOK"} ELSE {})
       \* L2: sum of squares ~ den^2 unless numerically zero (values recorded over den <= 2^12)
       \cup (IF c.norm = 2 /\ ~(SumSq(e.w, 1) < 4 \/
                                (SumSq(e.w, 1) - e.den * e.den <= e.sqtol /\ e.den * e.den - SumSq(e.w, 1) <= e.sqtol))
             THEN {"NormOK"} ELSE {})
       \cup (IF c.norm # 2 /\ LinFeasible(c, x0) /\ \E i \in 1..Len(x) : ~RNear(x[i], x0[i], tol)
             THEN {"FeasibleFixed"} ELSE {})
       \cup (IF e.exact /\ c.norm # 2 /\ (LET p == LinProject(c, x0) IN \E i \in 1..Len(x) : ~FxNear(e.w[i], e.tolu, e.den, p[i]))
             THEN {"DRIFT:LinProject"} ELSE {})
TraceInit == l = 1
TraceNext == /\ l <= Len(Trace) /\ l' = l + 1 /\ Record(Trace[l].i, Clauses(Trace[l]))
TraceSpec == TraceInit /\ [][TraceNext]_tvars
ASSUME TLCSet(1, {})
=============================================================================
