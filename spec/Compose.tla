------------------------------ MODULE Compose ------------------------------
(* C03: the function computed by a premade / hand-assembled model, from the abstract values of   *)
(* its layers, and the wiring condition under which layer contracts compose into end-to-end       *)
(* monotonicity and bounds (assume-guarantee: the layer contracts are C01/C04/C06/C07).           *)
(*                                                                                                *)
(* A model m is the record the harness extracts from the real Keras graph (and MC_Compose builds   *)
(* by hand at design level):                                                                       *)
(*   feats  seq of [kind "pwl"|"cat", dir (declared monotonicity -1/0/1; cat: 1 iff pairs given),  *)
(*                  pairs (seq of <<i, j>>, 1-based bucket positions, value[i] <= value[j])]        *)
(*   cals   seq (per feature) of the calibrator's own hyper-parameters                             *)
(*            pwl: [kind, kp, mono, hasMin, omin, hasMax, omax, clampMin, clampMax, units, imputes] *)
(*            cat: [kind, nb, pairs, hasMin, omin, hasMax, omax, units]                             *)
(*   mids   seq of middle layers; every one has ins = seq of <<feature, unit>> (its input slots)    *)
(*            lattice: the LatticeOps record + [kind, interp "hypercube"|"simplex", clip]            *)
(*            linear:  the PartialOrderOps linear record + [kind, useBias]                           *)
(*            kfl:     the KflOps record + [kind]                      (no exact model function)     *)
(*   comb   [kind "none"|"avg"|"lin", + linear record and useBias when "lin"]                       *)
(*   oc     [on, + pwl record when on]          output calibration                                  *)
(*   hasMin, omin, hasMax, omax                  the model's configured output bounds               *)
(* Weights W: [cal (feature -> unit -> kernel <<bias, heights>> | bucket values), miss (feature ->  *)
(*   unit -> missing output), mid (flat kernels / linear weights), midb (linear biases),            *)
(*   comb, combb, oc]                                                                               *)
(* An input point x is a sequence (per feature) of [m (missing / default), v (value; cat: bucket)]  *)
EXTENDS AssertOps
LI == INSTANCE LatticeInterp
CO == INSTANCE CalibratorOps

NF(m) == Len(m.feats)
PwlC(c) == [kp |-> c.kp, cyclic |-> FALSE]

CalOut(m, W, f, u, xf) ==
  LET c == m.cals[f] IN
  IF c.kind = "pwl"
  THEN (IF xf.m /\ c.imputes THEN W.miss[f][u] ELSE CO!PwlEval(PwlC(c), W.cal[f][u], xf.v))
  ELSE (IF xf.m THEN W.cal[f][u][c.nb] ELSE W.cal[f][u][xf.v[1] + 1])

MidIn(m, W, i, x) == LET ins == m.mids[i].ins
                     IN [j \in 1..Len(ins) |-> CalOut(m, W, ins[j][1], ins[j][2], x[ins[j][1]])]
LinOut(k, b, useBias, pt) == RAdd(IF useBias THEN b ELSE Zero, RSumSeq([j \in 1..Len(k) |-> RMul(k[j], pt[j])]))
MidOut(m, W, i, x) ==
  LET c == m.mids[i]  pt == MidIn(m, W, i, x) IN
  IF c.kind = "lattice"
  THEN (IF c.interp = "simplex" THEN LI!Simplex(c, L!Unflat(c, W.mid[i]), pt, c.clip)
        ELSE LI!Hyper(c, L!Unflat(c, W.mid[i]), pt, c.clip))
  ELSE LinOut(W.mid[i], W.midb[i], c.useBias, pt)
Combined(m, W, x) ==
  LET n == Len(m.mids)  ys == [i \in 1..n |-> MidOut(m, W, i, x)] IN
  IF m.comb.kind = "none" THEN ys[1]
  ELSE IF m.comb.kind = "avg" THEN RDiv(RSumSeq(ys), R(n))
  ELSE LinOut(W.comb, W.combb, m.comb.useBias, ys)
ModelFn(m, W, x) == LET y == Combined(m, W, x)
                    IN IF m.oc.on THEN CO!PwlEval(PwlC(m.oc), W.oc, y) ELSE y

-----------------------------------------------------------------------------
(* Layer contracts (the assumptions), at tolerance tol                                            *)
MissOK(c, v, tol) == (c.hasMin => Leq(c.omin, v, tol)) /\ (c.hasMax => Leq(v, c.omax, tol))
CalsOK(m, W, tol) == \A f \in 1..NF(m) : \A u \in 1..m.cals[f].units :
                       /\ OK(m.cals[f], W.cal[f][u], tol)
                       /\ (m.cals[f].kind = "pwl" /\ m.cals[f].imputes => MissOK(m.cals[f], W.miss[f][u], tol))
MidsOK(m, W, tol) == \A i \in 1..Len(m.mids) : OK(m.mids[i], W.mid[i], tol)
CombOK(m, W, tol) == m.comb.kind = "lin" => LinearOK(m.comb, W.comb, tol)
OcOK(m, W, tol) == m.oc.on => PwlOK(m.oc, W.oc, tol)
LayersOK(m, W, tol) == CalsOK(m, W, tol) /\ MidsOK(m, W, tol) /\ CombOK(m, W, tol) /\ OcOK(m, W, tol)

-----------------------------------------------------------------------------
(* Sufficient wiring: what the premade builders are supposed to establish                          *)
Subseteq(ps, qs) == \A n \in 1..Len(ps) : \E k \in 1..Len(qs) : qs[k] = ps[n]
\* a constrained feature goes through a calibrator of its own direction into increasing slots only
FeatureWired(m, f) ==
  LET ft == m.feats[f]  c == m.cals[f] IN
  ft.dir # 0 =>
    /\ (IF ft.kind = "pwl" THEN c.mono = ft.dir ELSE Subseteq(ft.pairs, c.pairs))
    /\ \A i \in 1..Len(m.mids) : \A j \in 1..Len(m.mids[i].ins) :
         m.mids[i].ins[j][1] = f => m.mids[i].mono[j] = 1
\* an unclipped lattice / kfl slot of size s receives values inside [0, s - 1] only
SlotSize(c, j) == IF c.kind = "lattice" THEN c.sizes[j] ELSE c.L
InsideSlots(m) ==
  \A i \in 1..Len(m.mids) : LET c == m.mids[i] IN
    (c.kind # "linear" /\ ~c.clip) =>
      \A j \in 1..Len(c.ins) : LET k == m.cals[c.ins[j][1]] IN
        k.hasMin /\ RLeq(Zero, k.omin) /\ k.hasMax /\ RLeq(k.omax, R(SlotSize(c, j) - 1))
\* interval that bounds the pre-calibration output, when the wiring determines one
MidLo(m, i) == LET c == m.mids[i] IN
  IF c.kind # "linear" THEN [has |-> c.hasMin, v |-> c.omin]
  ELSE [has |-> c.norm = 1 /\ ~c.useBias /\ (\A j \in 1..Len(c.mono) : c.mono[j] = 1)
                /\ (\A j \in 1..Len(c.ins) : m.cals[c.ins[j][1]].hasMin),
        v |-> IF \A j \in 1..Len(c.ins) : m.cals[c.ins[j][1]].hasMin
              THEN RMinSeq([j \in 1..Len(c.ins) |-> m.cals[c.ins[j][1]].omin]) ELSE Zero]
MidHi(m, i) == LET c == m.mids[i] IN
  IF c.kind # "linear" THEN [has |-> c.hasMax, v |-> c.omax]
  ELSE [has |-> c.norm = 1 /\ ~c.useBias /\ (\A j \in 1..Len(c.mono) : c.mono[j] = 1)
                /\ (\A j \in 1..Len(c.ins) : m.cals[c.ins[j][1]].hasMax),
        v |-> IF \A j \in 1..Len(c.ins) : m.cals[c.ins[j][1]].hasMax
              THEN RMaxSeq([j \in 1..Len(c.ins) |-> m.cals[c.ins[j][1]].omax]) ELSE Zero]
CombAveraging(m) == m.comb.kind # "lin" \/ (m.comb.norm = 1 /\ ~m.comb.useBias)
PreLo(m) == [has |-> CombAveraging(m) /\ \A i \in 1..Len(m.mids) : MidLo(m, i).has,
             v |-> IF \A i \in 1..Len(m.mids) : MidLo(m, i).has THEN RMinSeq([i \in 1..Len(m.mids) |-> MidLo(m, i).v]) ELSE Zero]
PreHi(m) == [has |-> CombAveraging(m) /\ \A i \in 1..Len(m.mids) : MidHi(m, i).has,
             v |-> IF \A i \in 1..Len(m.mids) : MidHi(m, i).has THEN RMaxSeq([i \in 1..Len(m.mids) |-> MidHi(m, i).v]) ELSE Zero]
BoundsWired(m) ==
  /\ m.hasMin => IF m.oc.on THEN m.oc.hasMin /\ RLeq(m.omin, m.oc.omin) ELSE PreLo(m).has /\ RLeq(m.omin, PreLo(m).v)
  /\ m.hasMax => IF m.oc.on THEN m.oc.hasMax /\ RLeq(m.oc.omax, m.omax) ELSE PreHi(m).has /\ RLeq(PreHi(m).v, m.omax)
CombWired(m) == /\ m.comb.kind = "lin" => \A i \in 1..Len(m.comb.mono) : m.comb.mono[i] = 1
                /\ m.oc.on => m.oc.mono = 1
Sufficient(m) == /\ \A f \in 1..NF(m) : FeatureWired(m, f)
                 /\ InsideSlots(m) /\ BoundsWired(m) /\ CombWired(m)

-----------------------------------------------------------------------------
(* End-to-end contract (the guarantee), on a pair of points / a point                             *)
DiffersOnlyIn(m, x, y, f) == \A g \in 1..NF(m) : g # f => x[g] = y[g]
\* y is "above" x in feature f according to the declared constraint
Above(m, f, x, y) ==
  LET ft == m.feats[f] IN
  /\ ~x[f].m /\ ~y[f].m /\ DiffersOnlyIn(m, x, y, f)
  /\ IF ft.kind = "pwl" THEN (ft.dir = 1 /\ RLt(x[f].v, y[f].v)) \/ (ft.dir = -1 /\ RLt(y[f].v, x[f].v))
     ELSE \E n \in 1..Len(ft.pairs) : x[f].v = R(ft.pairs[n][1] - 1) /\ y[f].v = R(ft.pairs[n][2] - 1)
BoundedOut(m, out, tol) == (m.hasMin => Leq(m.omin, out, tol)) /\ (m.hasMax => Leq(out, m.omax, tol))
-----------------------------------------------------------------------------
(* The part of each layer contract that the composition actually uses (monotonicity, orderings,   *)
(* signs / norm, bounds) - trust, dominance, convexity and clamps are other properties' business.   *)
\* KflOK with the product bound evaluated in saturating fixed point (exact rationals overflow 32 bits
\* for real-valued weights); truncation only lowers the product, so the check errs on the lenient side
FxOf(a, sc) == (a[1] * sc) \div a[2]
KflNeededOK(c, w, tol) ==
  LET nk == c.L * c.dims * c.terms
      SC == 4096
      Sat(a) == IF a > 32768 THEN 32768 ELSE a
      wt(i, d, t) == w[KIdx(c, <<i, d, t>>)]
      s(t) == w[nk + t]
      RECURSIVE MaxAbs(_, _, _)
      MaxAbs(d, t, i) == IF i = 0 THEN RAbs(wt(0, d, t)) ELSE RMax(RAbs(wt(i, d, t)), MaxAbs(d, t, i - 1))
      RECURSIVE MPfx(_, _)
      MPfx(t, d) == IF d = 0 THEN SC ELSE Sat((Sat(FxOf(MaxAbs(d, t, c.L - 1), SC)) * MPfx(t, d - 1)) \div SC)
  IN /\ \A d \in 1..c.dims, t \in 1..c.terms, i \in 0..(c.L - 2) :
          c.mono[d] = 1 => Leq(RMul(R(RSign(s(t))), wt(i, d, t)), RMul(R(RSign(s(t))), wt(i + 1, d, t)), tol)
     /\ (c.hasMin /\ c.hasMax => \A t \in 1..c.terms : MPfx(t, c.dims) <= SC + 8 + FxOf(tol, SC))
     /\ ((c.hasMin \/ c.hasMax) /\ ~(c.hasMin /\ c.hasMax) => \A n \in 1..nk : Leq(Zero, w[n], tol))
     /\ (c.hasMin /\ c.hasMax => \A t \in 1..c.terms :
           LET b == RHalf(RSub(c.omax, c.omin)) IN Leq(RNeg(b), s(t), tol) /\ Leq(s(t), b, tol))
     /\ (c.hasMin /\ ~c.hasMax => \A t \in 1..c.terms : Leq(Zero, s(t), tol))
     /\ (c.hasMax /\ ~c.hasMin => \A t \in 1..c.terms : Leq(s(t), Zero, tol))
NeededOK(c, w, tol) ==
  CASE c.kind = "lattice" -> LET x == L!Unflat(c, w) IN L!MonoOK(c, x, tol) /\ L!BoundsOK(c, x, tol)
    [] c.kind = "pwl" -> PwlOK([c EXCEPT !.clampMin = FALSE, !.clampMax = FALSE], w, tol)
    [] c.kind = "cat" -> CatOK(c, w, tol)
    [] c.kind \in {"linear", "lin"} ->
         /\ \A i \in 1..Len(w) : (c.mono[i] = 1 => Leq(Zero, w[i], tol)) /\ (c.mono[i] = -1 => Leq(w[i], Zero, tol))
         /\ (c.norm = 1 => RLt(PO!L1(w), PO!NormEps) \/ RNear(PO!L1(w), One, RMul(R(Len(w)), tol)))
    [] c.kind = "kfl" -> KflNeededOK(c, w, tol)
=============================================================================
