------------------------------ MODULE MC_Dykstra ------------------------------
(* Dykstra-only configurations (non-strict, unbounded): every family alone and combined.      *)
EXTENDS DykstraProps, Json, IOUtils, SequencesExt

Zs(n) == [i \in 1..n |-> 0]
Base(s) == [sizes |-> s, mono |-> Zs(Len(s)), uni |-> Zs(Len(s)), edge |-> <<>>, trap |-> <<>>,
            mdom |-> <<>>, rdom |-> <<>>, jmono |-> <<>>, juni |-> <<>>,
            hasMin |-> FALSE, omin |-> Zero, hasMax |-> FALSE, omax |-> One, iters |-> 1, strict |-> FALSE]
D(s, m, u, e, t, md, rd, jm, ju, it) ==
  [Base(s) EXCEPT !.mono = m, !.uni = u, !.edge = e, !.trap = t, !.mdom = md, !.rdom = rd, !.jmono = jm,
                  !.juni = ju, !.iters = it]
N0 == <<>>
\* 2x2: each family of two-dimensional lattices alone and in pairs, 1-2 sweeps
Space22 ==
  {D(<<2, 2>>, m, <<0, 0>>, e, t, md, rd, jm, N0, it) :
     m \in {<<1, 0>>, <<1, 1>>}, e \in {N0, << <<1, 2, 1>> >>, << <<1, 2, -1>> >>},
     t \in {N0, << <<1, 2, 1>> >>, << <<1, 2, -1>> >>}, md \in {N0, << <<1, 2>> >>}, rd \in {N0, << <<2, 1>> >>},
     jm \in {N0, << <<1, 2>> >>}, it \in {1, 2}}
  \cup {D(<<2, 2>>, <<0, 0>>, <<0, 0>>, N0, N0, N0, N0, << <<1, 2>> >>, N0, it) : it \in {1, 2}}
Dom22 == -1..2
Dom22q == 0..2
Space22q == {c \in Space22 : c.iters = 1}
\* 3x2 / 2x3: odd groups, unimodality, joint unimodality, range dominance over longer ranges
One1(e, t, md, rd, jm) == (IF e = N0 THEN 0 ELSE 1) + (IF t = N0 THEN 0 ELSE 1) + (IF md = N0 THEN 0 ELSE 1)
                           + (IF rd = N0 THEN 0 ELSE 1) + (IF jm = N0 THEN 0 ELSE 1) <= 1
Space32 ==
  {c \in {D(s, m, <<0, 0>>, e, t, md, rd, jm, N0, 1) :
     s \in {<<3, 2>>, <<2, 3>>}, m \in {<<1, 1>>}, e \in {N0, << <<1, 2, 1>> >>}, t \in {N0, << <<1, 2, -1>> >>},
     md \in {N0, << <<2, 1>> >>}, rd \in {N0, << <<1, 2>> >>}, jm \in {N0, << <<2, 1>> >>}} :
     One1(c.edge, c.trap, c.mdom, c.rdom, c.jmono)}
  \cup {D(<<3, 2>>, <<0, m2>>, <<u, 0>>, N0, N0, N0, N0, N0, N0, it) : m2 \in {0, 1}, u \in {1, -1}, it \in {1, 2}}
  \cup {D(<<2, 3>>, <<m1, 0>>, <<0, 0>>, N0, N0, N0, N0, N0, << <<<<2>>, dir>> >>, it) :
          m1 \in {0, 1}, dir \in {"valley", "peak"}, it \in {1, 2}}
Dom32 == 0..2
Space33 ==
  {D(<<3, 3>>, <<0, 0>>, <<0, 0>>, N0, N0, N0, N0, N0, << <<<<1, 2>>, dir>> >>, 1) : dir \in {"valley", "peak"}}
  \cup {D(<<3, 3>>, <<1, 1>>, <<0, 0>>, e, N0, N0, N0, N0, N0, 1) : e \in {N0, << <<1, 2, 1>> >>}}
  \cup {D(<<3, 3>>, <<1, 1>>, <<0, 0>>, N0, N0, << <<1, 2>> >>, N0, N0, N0, 1)}
Dom33 == 0..1
Space222 ==
  {D(<<2, 2, 2>>, m, <<0, 0, 0>>, e, t, N0, N0, jm, N0, 1) :
     m \in {<<1, 1, 0>>, <<1, 1, 1>>}, e \in {N0, << <<1, 3, 1>> >>}, t \in {N0, << <<1, 3, -1>>, <<2, 3, 1>> >>},
     jm \in {N0, << <<2, 3>> >>}}
Dom222 == 0..1
TestDef == -1..1
TestBin == 0..1
CaseFile(space, dom) == [cfgs |-> SetToSeq({c \in space : ValidCfg(c)}), vals |-> SetToSeq(dom)]
=============================================================================
