----------------------------- MODULE MC_KflDense -----------------------------
EXTENDS KflDense
Kc(l, dm, tm, cl) == [L |-> l, dims |-> dm, terms |-> tm, mono |-> [d \in 1..dm |-> 0], hasMin |-> FALSE, omin |-> Zero,
                      hasMax |-> FALSE, omax |-> One, clip |-> cl]
CfgQ == {Kc(2, 2, 1, TRUE), Kc(2, 2, 2, TRUE), Kc(3, 1, 1, TRUE), Kc(3, 2, 1, TRUE)}
KQ == {-1, 2}
SQ == {<<-1, 2>>, <<2, 1>>}
XQ == {<<-1, 2>>, <<0, 1>>, <<1, 2>>, <<1, 1>>, <<7, 4>>, <<2, 1>>}
=============================================================================
