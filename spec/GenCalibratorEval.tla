-------------------------- MODULE GenCalibratorEval --------------------------
EXTENDS MC_CalibratorEval
Out_ == IF Tier = "quick" THEN <<CaseFile(KpQ, KQ, GridQ)>> ELSE <<CaseFile(KpT, KT, GridQ)>>
ASSUME ndJsonSerialize(IOEnv.CASES_OUT, Out_)
=============================================================================
