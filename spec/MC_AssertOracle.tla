---------------------------- MODULE MC_AssertOracle ----------------------------
EXTENDS AssertOracle, Json, IOUtils, SequencesExt
Zs(n) == [i \in 1..n |-> 0]
Lat(s, m, e, t, md, rd, jm, b) ==
  [kind |-> "lattice", sizes |-> s, mono |-> m, uni |-> Zs(Len(s)), edge |-> e, trap |-> t, mdom |-> md, rdom |-> rd,
   jmono |-> jm, juni |-> <<>>, hasMin |-> b, omin |-> Zero, hasMax |-> b, omax |-> R(3)]
N0 == <<>>
LatSpace ==
  {Lat(<<2, 2>>, <<1, 1>>, N0, N0, N0, N0, N0, FALSE), Lat(<<2, 2>>, <<1, 0>>, << <<1, 2, 1>> >>, N0, N0, N0, N0, TRUE),
   Lat(<<2, 2>>, <<1, 0>>, N0, << <<1, 2, -1>> >>, N0, N0, N0, FALSE), Lat(<<2, 2>>, <<1, 1>>, N0, N0, << <<1, 2>> >>, N0, N0, FALSE),
   Lat(<<2, 2>>, <<1, 1>>, N0, N0, N0, << <<2, 1>> >>, N0, TRUE), Lat(<<2, 2>>, <<0, 0>>, N0, N0, N0, N0, << <<1, 2>> >>, FALSE),
   Lat(<<3, 2>>, <<1, 0>>, << <<1, 2, -1>> >>, N0, N0, N0, N0, FALSE)}
Pwl(n, m, hmin, cmin, hmax, cmax) == [kind |-> "pwl", n |-> n, mono |-> m, hasMin |-> hmin, omin |-> Zero, clampMin |-> cmin,
                                      hasMax |-> hmax, omax |-> R(2), clampMax |-> cmax]
PwlSpace == {Pwl(3, m, hmin, cmin, hmax, cmax) : m \in {1, -1, 0}, hmin \in BOOLEAN, cmin \in BOOLEAN, hmax \in BOOLEAN, cmax \in BOOLEAN}
PwlValid(c) == (c.clampMin => c.hasMin /\ c.mono # 0) /\ (c.clampMax => c.hasMax /\ c.mono # 0)
Lin(m, md, rd, rg, nm) == [kind |-> "linear", mono |-> m, mdom |-> md, rdom |-> rd, range |-> [i \in 1..Len(rg) |-> R(rg[i])], norm |-> nm]
LinSpace == {Lin(<<1, 1, 0>>, N0, N0, <<1, 1, 1>>, 0), Lin(<<1, -1, 1>>, N0, N0, <<1, 1, 1>>, 1),
             Lin(<<1, 1, 1>>, << <<1, 2>>, <<2, 3>> >>, N0, <<1, 1, 1>>, 0), Lin(<<1, 1, 1>>, N0, << <<1, 2>> >>, <<1, 2, 1>>, 0),
             Lin(<<-1, -1, 0>>, N0, << <<2, 1>> >>, <<2, 1, 1>>, 0), Lin(<<1, 1, 1>>, N0, N0, <<1, 1, 1>>, 1)}
Cat(nb, ps, b) == [kind |-> "cat", nb |-> nb, pairs |-> ps, hasMin |-> b, omin |-> Zero, hasMax |-> b, omax |-> R(2)]
CatSpace == {Cat(3, << <<1, 2>> >>, TRUE), Cat(3, << <<1, 2>>, <<2, 3>> >>, FALSE), Cat(4, << <<1, 2>>, <<3, 4>> >>, FALSE),
             Cat(4, << <<1, 2>>, <<1, 3>>, <<3, 4>> >>, TRUE), Cat(3, N0, TRUE)}
Kfl(m, bmin, bmax) == [kind |-> "kfl", L |-> 2, dims |-> 2, terms |-> 1, mono |-> m, hasMin |-> bmin, omin |-> Zero,
                       hasMax |-> bmax, omax |-> R(2), clip |-> TRUE]
KflSpace == {Kfl(m, bmin, bmax) : m \in {<<1, 0>>, <<1, 1>>, <<0, 0>>}, bmin \in BOOLEAN, bmax \in BOOLEAN}
                \ {Kfl(<<0, 0>>, FALSE, FALSE)}
AllSpace == LatSpace \cup {c \in PwlSpace : PwlValid(c)} \cup LinSpace \cup CatSpace \cup KflSpace
DomDef == -2..3
EpsQ == <<1, 1000>>
MagsQ == {RMul(R(4), EpsQ), One}
MagsOf(e) == {RMul(R(4), e), One}
\* ---- cases for the real code: the feasible base vectors of every configuration (integers, Den = 1);
\* the harness applies the same single-entry injections as the Inject action to a seeded sample of them
BaseFile(c) == [cfg |-> c, bases |-> SetToSeq({[n \in 1..NumW(c) |-> x[n][1]] : x \in Feasible(c)})]
Tier == IOEnv.VERIF_TIER
=============================================================================
