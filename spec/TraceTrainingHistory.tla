------------------------- MODULE TraceTrainingHistory -------------------------
(* code -> spec for C03.  A trace (key tr) is one history of one real Keras model:                  *)
(*   Build   [m]         the Compose.tla wiring record extracted from the real Keras graph           *)
(*   Obs     [act, kind, W, axes, xden, oden, outs, tolu, pairs, conf, cpts]                          *)
(*           act \in Build | Step | Save | Restore | Finalize | Recover : the public action that has  *)
(*           just returned (TrainingHistory.tla: the model is quiescent), W the weights of every layer *)
(*           in fixed point, outs the real outputs on the full product grid of the axes (row-major,    *)
(*           feature 1 slowest; a missing/default entry is the last one of its axis), pairs the worst  *)
(*           ordered pairs found by fine sweeps.                                                       *)
(* Contract clauses (-> VIOLATION): Monotone (numeric features), CategoricalOrder (categorical pairs), *)
(* Bounded (the statement, on real outputs), RestoreExact                                             *)
(* (weights after Restore/Recover equal the snapshot), Finite, Raised.                                 *)
(* Conformance clauses (-> DRIFT): the premises of the composition theorem checked by ComposeMC -      *)
(* layer contracts on the real weights, Sufficient(wiring) - and model(x) = ModelFn(wiring, W)(x).     *)
EXTENDS ComposeFx, TraceBase
VARIABLES l, st
tvars == <<l, st>>

VecQ(v) == FxSeq(v.k, v.d)
TolQ(v) == Norm(v.t, v.d)
NoSnap == [none |-> TRUE]

\* ---- probe grid ---------------------------------------------------------------------------------
AxLen(e, f) == Len(e.axes[f].vals) + (IF e.axes[f].miss THEN 1 ELSE 0)
RECURSIVE Stride(_, _)
Stride(e, f) == IF f = Len(e.axes) THEN 1 ELSE AxLen(e, f + 1) * Stride(e, f + 1)
MonoBad(m, e, kind) ==
  LET S == [f \in 1..Len(e.axes) |-> Stride(e, f)] IN
  \E f \in 1..Len(e.axes) :
    LET ft == m.feats[f]  s == S[f]  nv == Len(e.axes[f].vals)  al == AxLen(e, f) IN
    ft.kind = kind /\ ft.dir # 0 /\ \E n \in 1..Len(e.outs) :
      LET i == ((n - 1) \div s) % al IN
      IF ft.kind = "pwl"
      THEN i + 1 < nv /\ (IF ft.dir = 1 THEN e.outs[n] > e.outs[n + s] + e.tolu ELSE e.outs[n + s] > e.outs[n] + e.tolu)
      ELSE \E p \in 1..Len(ft.pairs) :
             i = ft.pairs[p][1] - 1 /\ e.outs[n] > e.outs[n + (ft.pairs[p][2] - ft.pairs[p][1]) * s] + e.tolu
PairsBad(m, e, kind) == \E p \in 1..Len(e.pairs) : m.feats[e.pairs[p].f].kind = kind /\ e.pairs[p].lo > e.pairs[p].hi + e.tolu
BoundedBad(m, e) == LET tol == Norm(e.tolu, e.oden) IN
                    (m.hasMin \/ m.hasMax) /\ \E n \in 1..Len(e.outs) : ~BoundedOut(m, Norm(e.outs[n], e.oden), tol)
\* axes must be strictly increasing (pwl) / the bucket ids in order (cat): otherwise the harness is broken
AxesOK(m, e) == \A f \in 1..Len(e.axes) : LET v == e.axes[f].vals IN
                  IF m.feats[f].kind = "pwl" THEN \A i \in 1..(Len(v) - 1) : v[i] < v[i + 1]
                  ELSE \A i \in 1..Len(v) : v[i] = i - 1

\* ---- conformance: model(x) = ModelFn(wiring, W)(x) on the sampled grid points e.cpts -----------------
PointAt(m, e, n) ==
  [f \in 1..Len(e.axes) |->
     LET i == ((n - 1) \div Stride(e, f)) % AxLen(e, f)  nv == Len(e.axes[f].vals) IN
     IF i >= nv THEN [m |-> TRUE, q |-> 0]
     ELSE [m |-> FALSE, q |-> IF m.feats[f].kind = "pwl" THEN e.axes[f].vals[i + 1] * (Q1 \div e.xden) ELSE e.axes[f].vals[i + 1]]]
ConfBad(m, e) == e.conf /\ \E k \in 1..Len(e.cpts) :
                   LET n == e.cpts[k]  v == ModelQ(m, e, PointAt(m, e, n))  o == ToQ(e.outs[n], e.oden)
                   IN v - o > e.ctol \/ o - v > e.ctol

\* ---- premises ------------------------------------------------------------------------------------
CalDrift(m, e) == \E f \in 1..NF(m) : \E u \in 1..Len(e.W.cal[f]) :
                    \/ ~NeededOK(m.cals[f], VecQ(e.W.cal[f][u]), TolQ(e.W.cal[f][u]))
                    \/ (m.cals[f].kind = "pwl" /\ m.cals[f].imputes
                          /\ ~MissOK(m.cals[f], VecQ(e.W.miss[f][u])[1], TolQ(e.W.miss[f][u])))
MidDrift(m, e) == \E i \in 1..Len(m.mids) : ~NeededOK(m.mids[i], VecQ(e.W.mid[i]), TolQ(e.W.mid[i]))
CombDrift(m, e) == m.comb.kind = "lin" /\ ~NeededOK(m.comb, VecQ(e.W.comb), TolQ(e.W.comb))
OcDrift(m, e) == m.oc.on /\ ~NeededOK(m.oc, VecQ(e.W.oc), TolQ(e.W.oc))

ObsClauses(m, e, snap) ==
  (IF ~AxesOK(m, e) THEN {"DRIFT-BadProbeAxes"} ELSE
     (IF MonoBad(m, e, "pwl") \/ PairsBad(m, e, "pwl") THEN {"Monotone"} ELSE {})
     \cup (IF MonoBad(m, e, "cat") \/ PairsBad(m, e, "cat") THEN {"CategoricalOrder"} ELSE {})
     \cup (IF BoundedBad(m, e) THEN {"Bounded"} ELSE {}))
  \cup (IF e.act \in {"Restore", "Recover"} /\ snap # NoSnap /\ e.W # snap THEN {"RestoreExact"} ELSE {})
  \cup (IF CalDrift(m, e) THEN {"DRIFT-LayerContract-calibrator"} ELSE {})
  \cup (IF MidDrift(m, e) THEN {"DRIFT-LayerContract-middle"} ELSE {})
  \cup (IF CombDrift(m, e) THEN {"DRIFT-LayerContract-combination"} ELSE {})
  \cup (IF OcDrift(m, e) THEN {"DRIFT-LayerContract-output-calibrator"} ELSE {})
  \cup (IF ConfBad(m, e) THEN {"DRIFT-ModelFn"} ELSE {})
  \cup (IF Has(e, "m2") /\ e.m2 # m THEN {"DRIFT-RecoveredWiringDiffers"} ELSE {})

TraceInit == l = 1 /\ st = [tr |-> -1, m |-> NoSnap, snap |-> NoSnap]
TraceNext ==
  /\ l <= Len(Trace) /\ l' = l + 1
  /\ LET e == Trace[l]
         cur == IF e.tr = st.tr THEN st ELSE [tr |-> e.tr, m |-> NoSnap, snap |-> NoSnap]
     IN
     /\ st' = CASE e.ev = "Build" -> [tr |-> e.tr, m |-> e.m, snap |-> NoSnap]
                [] e.ev = "Obs" /\ e.act = "Save" -> [cur EXCEPT !.snap = e.W]
                [] OTHER -> cur
     /\ Record(e.i, CASE e.ev = "Build" -> (IF Sufficient(e.m) THEN {} ELSE {"DRIFT-WiringInsufficient"})
                      [] e.ev = "Obs" -> (IF cur.m = NoSnap THEN {"DRIFT-ObsWithoutBuild"} ELSE ObsClauses(cur.m, e, cur.snap))
                      [] e.ev = "Raised" -> {"Raised"}
                      [] e.ev = "NonFinite" -> {"Finite"}
                      [] OTHER -> {})
TraceSpec == TraceInit /\ [][TraceNext]_tvars
ASSUME TLCSet(1, {})
=============================================================================
