------------------------------- MODULE KflDense -------------------------------
(* C14 (first clause): a KroneckerFactoredLattice equals a Lattice whose kernel is                   *)
(*     bias + mean_t scale[t] * prod_d w[v_d, d, t]       (one unit)                                  *)
(* checked on the model for every small parameter set and grid point, hypercube interpolation.        *)
EXTENDS KflOps
LI == INSTANCE LatticeInterp
CONSTANTS CfgSet, KDom, SDom, XGrid
VARIABLES cfg, w, s, x
vars == <<cfg, w, s, x>>
LatCfg(c) == [sizes |-> [d \in 1..c.dims |-> c.L]]
RECURSIVE ProdW(_, _, _, _)
ProdW(c, ww, v, t) == LET RECURSIVE P(_) P(d) == IF d = 0 THEN One ELSE RMul(ww[<<v[d], d, t>>], P(d - 1)) IN P(c.dims)
DenseKernel(c, ww, ss, b) ==
  [v \in LI!Vertices(LatCfg(c)) |->
     RAdd(b, RDiv(RSumSeq([t \in 1..c.terms |-> RMul(ss[t], ProdW(c, ww, v, t))]), R(c.terms)))]
Init == /\ cfg \in CfgSet /\ w \in [Keys(cfg) -> {R(a) : a \in KDom}] /\ s \in [Terms(cfg) -> SDom]
        /\ x \in [1..cfg.dims -> XGrid]
Next == UNCHANGED vars
Ones == [t \in Terms(cfg) |-> One]
InvSameFunction == KflEval(cfg, w, Ones, s, <<1, 2>>, x)
                   = LI!Hyper(LatCfg(cfg), DenseKernel(cfg, w, s, <<1, 2>>), x, cfg.clip)
=============================================================================
