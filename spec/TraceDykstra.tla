---------------------------- MODULE TraceDykstra ----------------------------
(* code -> spec for C08 (iterative projection): events recorded from lattice_lib.project_by_dykstra, *)
(* the strict layer constraint with many iterations and the PWL projection.                   *)
(*  Dyk      [cfg, n, den, w0, w, exact]        one call with num_iterations = n               *)
(*  Conv     [cfg, den, w0, ws (results for increasing n), ns, rp (last result projected again),*)
(*            strictw (strict constraint, many iterations), nearest (TRUE when the statement   *)
(*            claims the Euclidean-nearest limit for this family mix), tolu, ctol, test]       *)
(*  PwlConv  [cfg (PwlOps), den, w0, w, tolu, test]   monotonicity + bounds, many iterations   *)
(*  PwlFixed [cfg (PwlOps), den, w0, w, tolu]   a feasible kernel (one unit of a multi-unit call) *)
EXTENDS LatticeOps, TraceBase

VARIABLE l
tvars == <<l>>
P == INSTANCE PwlOps

Cfg(e) == [e.cfg EXCEPT !.omin = Norm(e.cfg.omin[1], e.cfg.omin[2]), !.omax = Norm(e.cfg.omax[1], e.cfg.omax[2])]
FamiliesOK(c, x, tol) == /\ MonoOK(c, x, tol) /\ UniOK(c, x, tol) /\ EdgeOK(c, x, tol) /\ TrapOK(c, x, tol)
                         /\ MDomOK(c, x, tol) /\ RDomOK(c, x, tol) /\ JMonoOK(c, x, tol) /\ JUniOK(c, x, tol)
NearInts(a, b, t) == \A n \in 1..Len(a) : a[n] - b[n] <= t /\ b[n] - a[n] <= t
NearFx(c, ints, t, den, y) == \A n \in 1..Len(ints) : FxNear(ints[n], t, den, y[VertexAt(c, n)])

\* integer inner products (all values are ints over the same small denominator)
RECURSIVE DotI(_, _, _)
DotI(a, b, n) == IF n = 0 THEN 0 ELSE a[n] * b[n] + DotI(a, b, n - 1)
Diff(a, b) == [n \in 1..Len(a) |-> a[n] - b[n]]
\* feasible integer test kernels with entries in the event's test domain (generators of the cones)
TestSet(c, dom) == {y \in [1..NumV(c) -> dom] : FamiliesOK(c, Unflat(c, [n \in 1..NumV(c) |-> R(y[n])]), Zero)}

DykClauses(e) ==
  LET c == Cfg(e)  x0 == Unflat(c, FxSeq(e.w0, e.den))  tol == Norm(e.tolu, e.den)
  IN (IF FamiliesOK(c, x0, Zero) /\ ~NearInts(e.w, e.w0, e.tolu) THEN {"FeasibleFixed"} ELSE {})
     \cup (IF e.exact /\ ~NearFx(c, e.w, e.tolu, e.den, Dykstra([c EXCEPT !.iters = e.n], x0))
           THEN {"DRIFT:Dykstra"} ELSE {})

ConvClauses(e) ==
  LET c == Cfg(e)
      last == e.ws[Len(e.ws)]
      xl == Unflat(c, FxSeq(last, e.den))
      g == Diff(e.w0, last)                \* x0 - p
  IN (IF ~FamiliesOK(c, xl, Norm(e.ctol, e.den)) THEN {"Converges"} ELSE {})
     \cup (IF ~NearInts(e.rp, last, e.tolu) THEN {"ReprojectionStays"} ELSE {})
     \cup (IF e.nearest /\ (DotI(g, last, Len(last)) > e.vtol \/ DotI(g, last, Len(last)) < -e.vtol)
           THEN {"NearestOrthogonal"} ELSE {})
     \cup (IF e.nearest /\ \E y \in TestSet(c, {e.test[n] : n \in 1..Len(e.test)}) :
                              DotI(g, y, Len(last)) * e.den > e.vtol
           THEN {"NearestVariational"} ELSE {})
     \* larger lattices: candidate test vectors handed over by the harness (integers), the feasible ones are used
     \cup (IF e.nearest /\ Has(e, "tests")
              /\ \E k \in 1..Len(e.tests) :
                    /\ FamiliesOK(c, Unflat(c, [n \in 1..NumV(c) |-> R(e.tests[k][n])]), Zero)
                    /\ DotI(g, e.tests[k], Len(last)) * e.den > e.vtol
           THEN {"NearestVariational"} ELSE {})
     \cup (IF e.nearest /\ Has(e, "strictw") /\ ~NearInts(e.strictw, last, e.stol) THEN {"StrictStaysClose"} ELSE {})

\* PWL: monotonicity + bounds; the feasible set is a polyhedron, general variational inequality
PwlTest(c, nrows, dom) == {y \in [1..nrows -> dom] : P!Feasible(c, [n \in 1..nrows |-> R(y[n])])}
PwlClauses(e) ==
  LET c == [e.cfg EXCEPT !.omin = Norm(e.cfg.omin[1], e.cfg.omin[2]), !.omax = Norm(e.cfg.omax[1], e.cfg.omax[2]),
                          !.len = [n \in 1..Len(e.cfg.len) |-> Norm(e.cfg.len[n][1], e.cfg.len[n][2])]]
      g == Diff(e.w0, e.w)
  IN IF \E y \in PwlTest(c, Len(e.w), {e.test[n] : n \in 1..Len(e.test)}) :
          DotI(g, [n \in 1..Len(e.w) |-> y[n] * e.den - e.w[n]], Len(e.w)) > e.vtol
     THEN {"PwlNearest"} ELSE {}

\* PWL: a kernel that satisfies every configured constraint (monotonicity, convexity, bounds, clamps) comes back unchanged
PwlFixedClauses(e) ==
  LET c == [e.cfg EXCEPT !.omin = Norm(e.cfg.omin[1], e.cfg.omin[2]), !.omax = Norm(e.cfg.omax[1], e.cfg.omax[2]),
                          !.len = [n \in 1..Len(e.cfg.len) |-> Norm(e.cfg.len[n][1], e.cfg.len[n][2])]]
  IN IF P!Feasible(c, FxSeq(e.w0, e.den)) /\ ~NearInts(e.w, e.w0, e.tolu) THEN {"PwlFeasibleFixed"}
     ELSE IF ~P!Feasible(c, FxSeq(e.w0, e.den)) THEN {"DRIFT:PwlFixedInputNotFeasible"} ELSE {}
Clauses(e) == CASE e.ev = "Dyk" -> DykClauses(e)
                [] e.ev = "PwlFixed" -> PwlFixedClauses(e)
                [] e.ev = "Conv" -> ConvClauses(e)
                [] e.ev = "PwlConv" -> PwlClauses(e)
                [] e.ev = "Raised" -> {"Raised"}
                [] e.ev = "NonFinite" -> {"Finite"}

TraceInit == l = 1
TraceNext == /\ l <= Len(Trace)
             /\ l' = l + 1
             /\ Record(Trace[l].i, Clauses(Trace[l]))
TraceSpec == TraceInit /\ [][TraceNext]_tvars
ASSUME TLCSet(1, {})
=============================================================================
