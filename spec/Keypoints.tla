------------------------------- MODULE Keypoints -------------------------------
(* Model for C18: every small data array / weight vector / clip and default option.                 *)
EXTENDS KeypointOps
CONSTANTS MaxLen, VDom, WDom, Ks
VARIABLES in, stage
vars == <<in, stage>>
Opt(b, v) == <<b, v>>
Init == stage = "init" /\ in = [vals |-> <<>>]
PickShape == /\ stage = "init" /\ stage' = "shape"
             /\ \E n \in 1..MaxLen, hw \in BOOLEAN, hm \in BOOLEAN, hx \in BOOLEAN, hd \in BOOLEAN, k \in Ks,
                   md \in {"quantiles", "uniform"}, rd \in {"mean", "sum"},
                   dv \in {0, 1, 2} :          \* a default value off the clip bounds, equal to clip_min, equal to clip_max
                  (hd \/ dv = 0) /\
                  in' = [vals |-> [i \in 1..n |-> 0], hasW |-> hw, w |-> [i \in 1..n |-> 1], hasMin |-> hm, cmin |-> 1,
                         hasMax |-> hx, cmax |-> 2, hasDef |-> hd, def |-> dv, k |-> k, mode |-> md, red |-> rd]
PickData == /\ stage = "shape" /\ stage' = "data"
            /\ \E vs \in [1..Len(in.vals) -> VDom], ws \in (IF in.hasW THEN [1..Len(in.vals) -> WDom] ELSE {in.w}) :
                 in' = [in EXCEPT !.vals = vs, !.w = ws]
Next == PickShape \/ PickData
NonEmpty == Items(in) # {}
\* the computation is total on non-empty data with positive total weight
InvTotal == (stage = "data" /\ NonEmpty /\ (in.hasW => CumW(in, Sorted(in), Len(Sorted(in))) # Zero)) => Results(in) # {}
InvContract == (stage = "data" /\ NonEmpty) => \A kp \in Results(in) : KeypointsOK(in, kp, Zero)
=============================================================================
