----------------------------- MODULE Regularizers -----------------------------
(* C13: the documented penalties, written directly over vertices / keypoint outputs.            *)
(*  Lattice Laplacian  sum_d ( l1_d * sum |w[v+e_d] - w[v]|  +  l2_d * sum (w[v+e_d] - w[v])^2 )    *)
(*  Lattice torsion    sum_{i<j} ( l1_i l1_j * sum |twist_ij|  +  l2_i l2_j * sum twist_ij^2 )      *)
(*                     twist_ij(v) = w[v] + w[v+e_i+e_j] - w[v+e_i] - w[v+e_j]                      *)
(*  PWL Laplacian / Hessian / wrinkle: l1 / l2 norms of the first / second / third differences of   *)
(*  the keypoint outputs, with wrap-around when is_cyclic.                                          *)
(* Multi-unit kernels: the sum over units.  Amounts are sequences (one per dimension); a scalar     *)
(* amount a means a per dimension for Laplacian, and weight a per pair for torsion.                 *)
EXTENDS LatticeOps
SumOverSet(S, f(_)) == LET RECURSIVE M(_)
                       M(T) == IF T = {} THEN Zero ELSE LET e == CHOOSE e \in T : TRUE IN RAdd(f(e), M(T \ {e}))
                   IN M(S)
Sq(a) == RMul(a, a)
Edges(c, d) == {v \in Vertices(c) : v[d] < c.sizes[d] - 1}
LatLaplacian(c, x, l1, l2) ==
  SumOverSet(Dims(c), LAMBDA d :
     RAdd(RMul(l1[d], SumOverSet(Edges(c, d), LAMBDA v : RAbs(RSub(x[Up(c, v, d)], x[v])))),
          RMul(l2[d], SumOverSet(Edges(c, d), LAMBDA v : Sq(RSub(x[Up(c, v, d)], x[v]))))))
Squares(c, i, j) == {v \in Vertices(c) : v[i] < c.sizes[i] - 1 /\ v[j] < c.sizes[j] - 1}
Twist(c, x, v, i, j) == RSub(RAdd(x[v], x[With2(v, i, v[i] + 1, j, v[j] + 1)]),
                             RAdd(x[With(v, i, v[i] + 1)], x[With(v, j, v[j] + 1)]))
DimPairs(c) == {p \in Dims(c) \X Dims(c) : p[1] < p[2]}
\* pw1[p], pw2[p]: the weight of pair p (product of the per-dimension amounts, or the scalar amount)
LatTorsion(c, x, pw1, pw2) ==
  SumOverSet(DimPairs(c), LAMBDA p :
     RAdd(RMul(pw1[p], SumOverSet(Squares(c, p[1], p[2]), LAMBDA v : RAbs(Twist(c, x, v, p[1], p[2])))),
          RMul(pw2[p], SumOverSet(Squares(c, p[1], p[2]), LAMBDA v : Sq(Twist(c, x, v, p[1], p[2]))))))

\* ---- PWL: kern = <<bias, heights>> (one row fewer when cyclic) --------------------------------
RECURSIVE CumK(_, _)
CumK(k, i) == IF i = 1 THEN k[1] ELSE RAdd(CumK(k, i - 1), k[i])
Outs(k) == [i \in 1..Len(k) |-> CumK(k, i)]           \* the distinct keypoint outputs
\* differences of a sequence; cyclic: indices wrap around and the result has the same length
Diff(s, cyclic) == IF cyclic THEN [i \in 1..Len(s) |-> RSub(s[(i % Len(s)) + 1], s[i])]
                   ELSE [i \in 1..(Len(s) - 1) |-> RSub(s[i + 1], s[i])]
Norms(s, l1, l2) == RAdd(RMul(l1, RSumSeq([i \in 1..Len(s) |-> RAbs(s[i])])),
                         RMul(l2, RSumSeq([i \in 1..Len(s) |-> Sq(s[i])])))
D1(k, cyclic) == Diff(Outs(k), cyclic)
D2(k, cyclic) == IF Len(D1(k, cyclic)) = 0 THEN <<>> ELSE Diff(D1(k, cyclic), cyclic)
D3(k, cyclic) == IF Len(D2(k, cyclic)) = 0 THEN <<>> ELSE Diff(D2(k, cyclic), cyclic)
PwlLaplacian(k, cyclic, l1, l2) == Norms(D1(k, cyclic), l1, l2)
PwlHessian(k, cyclic, l1, l2) == Norms(D2(k, cyclic), l1, l2)
\* the wrinkle regularizer is defined for kernels of at least three rows
PwlWrinkle(k, cyclic, l1, l2) == IF Len(k) < 3 THEN Zero ELSE Norms(D3(k, cyclic), l1, l2)
=============================================================================
