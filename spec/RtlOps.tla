-------------------------------- MODULE RtlOps --------------------------------
(* tfl.layers.RTL._get_rtl_structure as pure operators.  An input is <<monotonicity, group, index>>; *)
(* a lattice is a sequence of inputs.  The two np.random shuffles are the only nondeterminism and     *)
(* are supplied from outside (any permutation).                                                      *)
EXTENDS Integers, Sequences, FiniteSets, TLC
RECURSIVE Rep(_, _)
Rep(s, n) == IF n = 0 THEN <<>> ELSE s \o Rep(s, n - 1)
TileTruncate(s, total) == SubSeq(Rep(s, 1 + total \div Len(s)), 1, total)
Split(s, nl, rank) == [k \in 1..nl |-> SubSeq(s, (k - 1) * rank + 1, k * rank)]
Groups(lat) == [k \in 1..Len(lat) |-> lat[k][2]]
Without(s, i) == [k \in 1..(Len(s) - 1) |-> IF k < i THEN s[k] ELSE s[k + 1]]
InSeq(x, s) == \E k \in 1..Len(s) : s[k] = x
\* the scan order of the swap loop: combinations of lattices, then product of positions
RECURSIVE PairList(_, _, _)
PairList(a, b, n) == IF a >= n THEN <<>> ELSE IF b > n THEN PairList(a + 1, a + 2, n) ELSE << <<a, b>> >> \o PairList(a, b + 1, n)
RECURSIVE PosList(_, _, _)
PosList(i, j, r) == IF i > r THEN <<>> ELSE IF j > r THEN PosList(i + 1, 1, r) ELSE << <<i, j>> >> \o PosList(i, j + 1, r)
SwapWanted(l0, l1, i0, i1) ==
  LET f0 == l0[i0]  f1 == l1[i1]
      g0 == Groups(Without(l0, i0))  g1 == Groups(Without(l1, i1))
  IN f0[2] # f1[2] /\ InSeq(f0[2], g0) /\ ~InSeq(f0[2], g1) /\ ~InSeq(f1[2], g0)
RECURSIVE ScanPos(_, _, _, _)
ScanPos(lats, a, b, ps) ==        \* returns <<lattices, changed>>
  IF ps = <<>> THEN <<lats, FALSE>>
  ELSE LET i0 == Head(ps)[1]  i1 == Head(ps)[2] IN
       IF SwapWanted(lats[a], lats[b], i0, i1)
       THEN LET nl == [lats EXCEPT ![a] = [lats[a] EXCEPT ![i0] = lats[b][i1]], ![b] = [lats[b] EXCEPT ![i1] = lats[a][i0]]]
                r == ScanPos(nl, a, b, Tail(ps))
            IN <<r[1], TRUE>>
       ELSE ScanPos(lats, a, b, Tail(ps))
RECURSIVE ScanPairs(_, _, _)
ScanPairs(lats, prs, rank) ==
  IF prs = <<>> THEN <<lats, FALSE>>
  ELSE LET r == ScanPos(lats, Head(prs)[1], Head(prs)[2], PosList(1, 1, rank))
           q == ScanPairs(r[1], Tail(prs), rank)
       IN <<q[1], r[2] \/ q[2]>>
SwapPass(lats, rank) == ScanPairs(lats, PairList(1, 2, Len(lats)), rank)
\* stable sort of a lattice by monotonicity (0 before 1)
SortByMono(lat) == LET z == {k \in 1..Len(lat) : lat[k][1] = 0}
                       RECURSIVE Pick(_, _)
                       Pick(k, want) == IF k > Len(lat) THEN <<>> ELSE (IF lat[k][1] = want THEN <<lat[k]>> ELSE <<>>) \o Pick(k + 1, want)
                   IN Pick(1, 0) \o Pick(1, 1)
Monos(lat) == [k \in 1..Len(lat) |-> lat[k][1]]
Indices(lat) == [k \in 1..Len(lat) |-> lat[k][3]]
\* ---- what C17 requires of the final arrangement (lats: sorted lattices) ------------------------
UseCount(lats, inp) == Cardinality({<<k, p>> \in (1..Len(lats)) \X (1..Len(lats[1])) : lats[k][p] = inp})
StructureOK(inputs, lats, rank) ==
  /\ \A k \in 1..Len(lats) : Len(lats[k]) = rank
  /\ \A n \in 1..Len(inputs) : UseCount(lats, inputs[n]) >= 1
  /\ \A n, m \in 1..Len(inputs) : UseCount(lats, inputs[n]) - UseCount(lats, inputs[m]) <= 1
  /\ \A k \in 1..Len(lats) : \A p \in 1..(rank - 1) : lats[k][p][1] <= lats[k][p + 1][1]
=============================================================================
