---------------------------- MODULE PwlConstraint ----------------------------
(* State machine of the PWL calibrator weight constraint: the configuration and the kernel   *)
(* are chosen in Init (Assign: the optimizer may have written any kernel), then the schedule *)
(* of PwlOps is executed one code step per action.  Operators and contracts: PwlOps.tla.     *)
EXTENDS PwlOps

CONSTANTS CfgSpace,      \* set of configuration records
          Vals           \* integer kernel entries enumerated in Init

VARIABLES cfg, w, w0, lc, k

vars == <<cfg, w, w0, lc, k>>

----------------------------------------------------------------------------
\* state machine
Init == /\ cfg \in {c \in CfgSpace : ValidCfg(c)}
        /\ w \in [1..(NHof(cfg) + 1) -> {R(v) : v \in Vals}]
        /\ w0 = w
        /\ lc = [g \in GroupNames |-> ZeroSeq(NHof(cfg) + 1)]
        /\ k = 1

Sched == Schedule(cfg)
Cur == IF k <= Len(Sched) THEN Sched[k] ELSE "done"

Dyk(g) == /\ Cur = g
          /\ IF Len(Groups(cfg)) > 1
             THEN LET r == Minus(w, lc[g])
                      p == StepOp(cfg, g, r)
                  IN w' = p /\ lc' = [lc EXCEPT ![g] = Minus(p, r)]
             ELSE w' = StepOp(cfg, g, w) /\ UNCHANGED lc
          /\ k' = k + 1 /\ UNCHANGED <<cfg, w0>>
Fin(s) == /\ Cur = s
          /\ w' = StepOp(cfg, s, w)
          /\ k' = k + 1 /\ UNCHANGED <<cfg, w0, lc>>

DykB == Dyk("B")
DykM == Dyk("M")
DykC0 == Dyk("C0")
DykC1 == Dyk("C1")
FinM == Fin("FM")
FinC == Fin("FC")
FinS == Fin("FS")
FinB == Fin("FB")
Done == Cur = "done" /\ UNCHANGED vars

Next == DykB \/ DykM \/ DykC0 \/ DykC1 \/ FinM \/ FinC \/ FinS \/ FinB \/ Done
Spec == Init /\ [][Next]_vars

----------------------------------------------------------------------------
\* invariants checked by TLC on the model
AtEnd == Cur = "done"
\* Known findings (findings/known_findings.json): the design itself - and the real code, which
\* agrees with this model on every enumerated case - breaks the bounds contract on the squeeze
\* path (monotone + convex + bounds: _squeeze_by_scaling never moves the bias and skips when
\* bias >= output_max - 0.001), and with num_projection_iterations = 0 no Dykstra sweep runs, so a
\* clamped end is not reached.  The exempted invariants are what TLC proves; the *All variants are
\* run as self-tests that must fail (they show the contract is not vacuous).
KnownSqueeze(c) == c.mono # 0 /\ c.conv # 0 /\ HasBounds(c)
KnownNoSweep(c) == c.iters = 0 /\ Len(Groups(c)) > 1
InvMono == AtEnd => MonoOK(cfg, w)
InvBoundsAll == AtEnd => BoundsOK(cfg, w, Zero)
InvBounds == AtEnd /\ ~KnownSqueeze(cfg) => BoundsOK(cfg, w, Zero)
InvConvex == AtEnd /\ ConvexRequired(cfg) => ConvexOK(cfg, w, Zero)
InvClampAll == AtEnd /\ ClampExactRequired(cfg) => ClampOK(cfg, w, Zero)
InvClamp == AtEnd /\ ClampExactRequired(cfg) /\ ~KnownNoSweep(cfg) => ClampOK(cfg, w, Zero)
InvFixed == AtEnd /\ Feasible(cfg, w0) => w = w0
\* the whole-constraint function agrees with the step-wise machine
InvFunc == AtEnd => w = Project(cfg, w0)
\* Dykstra bookkeeping: in the loop, w = (start of sweep state) is not tracked; the roll-back
\* identity is checked as: a feasible-for-all-groups kernel with zero memory is a fixed point.
FixedPointStep == [][\A g \in GroupNames :
                      (Cur = g /\ Feasible(cfg, w) /\ lc[g] = ZeroSeq(Len(w))) => w' = w]_vars
=============================================================================
