------------------------------ MODULE TraceBase ------------------------------
(* Common part of all trace specifications (code -> spec).                                      *)
(* The trace is an ndjson file of events recorded from the real library; each trace module      *)
(* defines Clause(e) (stateless contracts) or its own next-state relation (stateful ones) and   *)
(* never blocks: a failing contract is recorded by name in `bad`, so that one TLC run yields    *)
(* the complete list <<event index, clause>> and known findings can be told from new ones.      *)
EXTENDS Integers, Sequences, TLC, Json, IOUtils, SequencesExt
Trace == ndJsonDeserialize(IOEnv.TRACE_FILE)
Accepted(l) == /\ l = Len(Trace) + 1
Has(e, f) == f \in DOMAIN e
\* failing clauses are accumulated in TLC register 1 (run with -workers 1), not in the state
Record(i, cls) == IF cls = {} THEN TRUE ELSE TLCSet(1, TLCGet(1) \cup {<<i, cl>> : cl \in cls})
\* Post-condition used by every trace cfg: all events consumed, verdict file written.
TracePost == /\ TLCGet("stats").diameter = Len(Trace) + 1
             /\ JsonSerialize(IOEnv.BAD_FILE, SetToSeq(TLCGet(1)))
             /\ PrintT("TRACE-ACCEPTED")
=============================================================================
