----------------------------- MODULE ConditionalOps -----------------------------
(* C14 / C15: tfl.conditional_pwl_calibration.pwl_calibration_fn and the CDF layer / cdf_fn.       *)
(* softmax and sigmoid are not rational; they are abstracted by what the code relies on:            *)
(*   softmax(v)  -> any vector of positive numbers summing to 1                                      *)
(*   sigmoid(t)  -> any number strictly between 0 and 1, non-decreasing in t                          *)
(* Everything after them - front padding, cumulative sums, clamp handling, cyclic closing, the delta  *)
(* transform, missing-value selection and the parameter-size arithmetic - is modelled exactly.        *)
(* c = [imin, imax, omin, omax (rationals), mono ("none"|"increasing"), clampMin, clampMax, cyclic,    *)
(*      hasMissIn, hasMissOut]                                                                         *)
EXTENDS Integers, Sequences, FiniteSets, Rat, TLC
CO == INSTANCE CalibratorOps
B2N(b) == IF b THEN 1 ELSE 0
\* number of keypoint_output_parameters the call must supply for K keypoints (K = 2 when the interior
\* keypoint parameters are omitted)
ParamSize(c, K) == K - B2N(c.clampMax) - B2N(c.clampMin) - B2N(c.cyclic) + B2N(c.hasMissIn) - B2N(c.hasMissOut)
ValidForm(c) == /\ ~(c.mono = "none" /\ (c.clampMin \/ c.clampMax)) /\ ~(c.mono = "increasing" /\ c.cyclic)
                /\ (c.hasMissOut => c.hasMissIn) /\ RLeq(c.imin, c.imax) /\ RLeq(c.omin, c.omax)
\* keypoints from the softmax deltas (positive, summing to 1): K = Len(sm) + 1 keypoints
Deltas(c, sm) == [j \in 1..Len(sm) |-> RMul(sm[j], RSub(c.imax, c.imin))]
RECURSIVE CumD(_, _)
CumD(d, j) == IF j = 0 THEN Zero ELSE RAdd(CumD(d, j - 1), d[j])
Keypoints(c, sm) == [j \in 1..(Len(sm) + 1) |-> RAdd(c.imin, CumD(Deltas(c, sm), j - 1))]
\* kernel <<initial value, delta_1, ..>> for monotonicity "none": sg = sigmoid values of the parameters
KernelNone(c, sg) ==
  LET o == [j \in 1..Len(sg) |-> RAdd(RMul(sg[j], RSub(c.omax, c.omin)), c.omin)]
      oc == IF c.cyclic THEN Append(o, o[1]) ELSE o
  IN [j \in 1..Len(oc) |-> IF j = 1 THEN oc[1] ELSE RSub(oc[j], oc[j - 1])]
\* "increasing": sm2 = softmax of the front-padded parameters (positive, summing to 1)
KernelInc(c, sm2) ==
  LET h == [j \in 1..Len(sm2) |-> RMul(sm2[j], RSub(c.omax, c.omin))]
      k1 == IF c.clampMin THEN <<c.omin>> \o h ELSE [j \in 1..Len(h) |-> IF j = 1 THEN RAdd(h[1], c.omin) ELSE h[j]]
  IN IF c.clampMax THEN k1 ELSE SubSeq(k1, 1, Len(k1) - 1)
\* the calibration itself is CalibratorOps.PwlEval on the derived keypoints / kernel
FnEval(kp, kern, x) == CO!PwlEval([kp |-> kp, cyclic |-> FALSE], kern, x)

\* ---- CDF ---------------------------------------------------------------------------------------------
Relu6(t) == RClip(t, Zero, R(6))
\* one (input d, unit group g) basis value: mean over keypoints of relu6(scale * (x - k)) / 6
CdfBasis(ks, scale, x) == RDiv(RSumSeq([j \in 1..Len(ks) |-> Relu6(RMul(scale, RSub(x, ks[j])))]), R(6 * Len(ks)))
=============================================================================
