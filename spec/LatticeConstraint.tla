--------------------------- MODULE LatticeConstraint ---------------------------
(* State machine of the Lattice weight constraint (LatticeConstraints.__call__ and            *)
(* Lattice.finalize_constraints): Init picks a valid configuration and any kernel of Dom^V    *)
(* ("the optimizer may have written anything"), then one action per step the code takes:      *)
(* every Dykstra group projection with its roll-back term, every finalize pass, the clip.     *)
EXTENDS LatticeOps

CONSTANTS CfgSpace,    \* set of configuration records
          Dom          \* integer kernel entries

VARIABLES cfg, w, w0, lc, k,
          gs, ts        \* the schedule computed from cfg once: Dykstra group keys, tail steps
vars == <<cfg, w, w0, lc, k, gs, ts>>

\* lattice_lib.verify_hyperparameters (the rules that matter for the constraint)
Trusts(c) == c.edge \o c.trap
ValidCfg(c) ==
  /\ \A d \in Dims(c) : /\ c.sizes[d] >= 2
                         /\ ~(c.mono[d] # 0 /\ c.uni[d] # 0)
                         /\ (c.uni[d] # 0 => c.sizes[d] >= 3)
  /\ \A q \in 1..Len(Trusts(c)) : /\ c.mono[Trusts(c)[q][1]] = 1
                                   /\ Trusts(c)[q][1] # Trusts(c)[q][2]
  /\ \A q, r \in 1..Len(Trusts(c)) :
        /\ Trusts(c)[q][1] # Trusts(c)[r][2]                         \* main and conditional features disjoint
        /\ (Trusts(c)[q][1] = Trusts(c)[r][1] /\ Trusts(c)[q][2] = Trusts(c)[r][2])
              => Trusts(c)[q][3] = Trusts(c)[r][3]                   \* no opposite directions on one pair
  /\ \A q \in 1..Len(c.mdom) : c.mono[c.mdom[q][1]] = 1 /\ c.mono[c.mdom[q][2]] = 1
  /\ \A q \in 1..Len(c.rdom) : c.mono[c.rdom[q][1]] = 1 /\ c.mono[c.rdom[q][2]] = 1
  /\ \A q \in 1..Len(c.juni) : \A n \in 1..Len(c.juni[q][1]) :
        c.sizes[c.juni[q][1][n]] >= 3 /\ c.mono[c.juni[q][1][n]] = 0
  /\ (c.hasMin /\ c.hasMax) => RLt(c.omin, c.omax)

Groups == gs
NG == Len(gs)
DykSteps == IF HasDykstra(cfg) /\ NG > 0 THEN cfg.iters * NG ELSE 0
Tail_ == ts

Init == /\ cfg \in {c \in CfgSpace : ValidCfg(c)}
        /\ w \in [Vertices(cfg) -> {R(a) : a \in Dom}]
        /\ w0 = w
        /\ gs = DykGroups(cfg)
        /\ ts = TailSteps(cfg)
        /\ lc = [g \in 1..Len(gs) |-> KZero(cfg)]
        /\ k = 1

InDyk == k <= DykSteps
Pos == ((k - 1) % NG) + 1
DykstraGroup(kind) ==
  /\ InDyk /\ Groups[Pos][1] = kind
  /\ LET r == KMinus(w, lc[Pos])
         p == GroupOp(cfg, Groups[Pos], r)
     IN w' = p /\ lc' = [lc EXCEPT ![Pos] = KMinus(p, r)]
  /\ k' = k + 1 /\ UNCHANGED <<cfg, w0, gs, ts>>
TailStep(kind) ==
  /\ ~InDyk /\ k - DykSteps <= Len(Tail_) /\ Tail_[k - DykSteps][1] = kind
  /\ w' = FinOp(cfg, Tail_[k - DykSteps], w)
  /\ k' = k + 1 /\ UNCHANGED <<cfg, w0, lc, gs, ts>>
AtEnd == k > DykSteps + Len(Tail_)

DykMono == DykstraGroup("M")
DykEdge == DykstraGroup("E")
DykTrap == DykstraGroup("T")
DykMDom == DykstraGroup("D")
DykRDom == DykstraGroup("R")
DykJMono == DykstraGroup("J")
DykJUni == DykstraGroup("U")
FinMonoStep == TailStep("FM")
FinEdgeStep == TailStep("FE")
FinTrapStep == TailStep("FT")
FinBoundsStep == TailStep("FB")
ClipStep == TailStep("CL")
Done == AtEnd /\ UNCHANGED vars
Next == DykMono \/ DykEdge \/ DykTrap \/ DykMDom \/ DykRDom \/ DykJMono \/ DykJUni
        \/ FinMonoStep \/ FinEdgeStep \/ FinTrapStep \/ FinBoundsStep \/ ClipStep \/ Done
Spec == Init /\ [][Next]_vars

-----------------------------------------------------------------------------
\* Known finding C01-trapezoid-breaks-monotonicity (findings/known_findings.json): with an
\* Edgeworth trust present the trapezoid pass moves a whole face by the maximal violation; when
\* the conditional feature of the trapezoid trust is itself monotone this breaks its
\* monotonicity (and the later passes do not repair it).
KnownTrapMono(c) == c.edge # <<>> /\ \E q \in 1..Len(c.trap) : c.mono[c.trap[q][2]] = 1
Strict(c) == c.strict /\ GuardOn(c)
InvMonoAll == AtEnd /\ Strict(cfg) => MonoOK(cfg, w, Zero)
InvMono == AtEnd /\ Strict(cfg) /\ ~KnownTrapMono(cfg) => MonoOK(cfg, w, Zero)
InvEdge == AtEnd /\ Strict(cfg) => EdgeOK(cfg, w, Zero)
InvTrap == AtEnd /\ Strict(cfg) /\ ~TrapWaived(cfg) => TrapOK(cfg, w, Zero)
InvBounds == AtEnd => BoundsOK(cfg, w, Zero)
InvFixed == AtEnd /\ FeasibleAll(cfg, w0) => w = w0
InvFunc == AtEnd => w = Constrain(cfg, w0)
\* "does not violate earlier constraints", one action property per finalize pass
EdgeKeepsMono == [][FinEdgeStep /\ MonoOK(cfg, w, Zero) => MonoOK(cfg, w', Zero)]_vars
TrapKeepsEdge == [][FinTrapStep /\ EdgeOK(cfg, w, Zero) => EdgeOK(cfg, w', Zero)]_vars
TrapKeepsMono == [][FinTrapStep /\ ~KnownTrapMono(cfg) /\ MonoOK(cfg, w, Zero) => MonoOK(cfg, w', Zero)]_vars
BoundsKeepAll == [][FinBoundsStep /\ MonoOK(cfg, w, Zero) /\ EdgeOK(cfg, w, Zero) /\ TrapOK(cfg, w, Zero)
                      => MonoOK(cfg, w', Zero) /\ EdgeOK(cfg, w', Zero) /\ TrapOK(cfg, w', Zero)]_vars
\* Dykstra: a kernel feasible for every family, with no memory, is a fixed point of every group
FixedPointStep == [][InDyk /\ FeasibleAll(cfg, w) /\ lc[Pos] = KZero(cfg) => w' = w]_vars
=============================================================================
