--------------------------- MODULE PartialOrderOps ---------------------------
(* internal_utils.approximately_project_categorical_partial_monotonicities and its helpers:  *)
(* _topological_sort (the explicit-stack DFS), _min_projection / _max_projection passes, and   *)
(* on top of them linear_lib.project and categorical_calibration_lib.project.                  *)
(* Weights of one unit are sequences of rationals indexed by input / bucket (1-based);         *)
(* constraints are sequences of pairs <<i, j>> meaning weight[i] <= weight[j].                 *)
EXTENDS Integers, Sequences, FiniteSets, Rat, TLC

\* ---- dictionaries of the code: key order = order of first appearance --------------------------
RECURSIVE KeysOf(_, _)
KeysOf(pairs, which) ==       \* distinct pairs[n][which] in order of first appearance
  IF pairs = <<>> THEN <<>>
  ELSE LET rest == KeysOf(SubSeq(pairs, 1, Len(pairs) - 1), which)
           x == pairs[Len(pairs)][which]
       IN IF \E n \in 1..Len(rest) : rest[n] = x THEN rest ELSE Append(rest, x)
RECURSIVE ValuesOf(_, _, _)
ValuesOf(pairs, key, which) ==      \* pairs[n][3-which] for pairs[n][which] = key, in order
  IF pairs = <<>> THEN <<>>
  ELSE (IF Head(pairs)[which] = key THEN <<Head(pairs)[3 - which]>> ELSE <<>>) \o ValuesOf(Tail(pairs), key, which)
Less(pairs, i) == ValuesOf(pairs, i, 1)        \* key_less_than_values[i]:  w[i] <= w[j] for j in it
Greater(pairs, j) == ValuesOf(pairs, j, 2)     \* key_greater_than_values[j]
SeqToSet(s) == {s[n] : n \in 1..Len(s)}
AllValues(pairs) == {pairs[n][2] : n \in 1..Len(pairs)}

\* ---- _topological_sort as a step function on <<q, seen, result>> -----------------------------
TopoInit(pairs) ==
  LET keys == KeysOf(pairs, 1)
      RECURSIVE F(_)
      F(s) == IF s = <<>> THEN <<>> ELSE (IF Head(s) \in AllValues(pairs) THEN <<>> ELSE <<Head(s)>>) \o F(Tail(s))
  IN [q |-> F(keys), seen |-> {}, result |-> <<>>]
TopoStep(pairs, st) ==       \* one iteration of `while q:`
  LET v == st.q[Len(st.q)]
      seen2 == st.seen \cup {v}
      ch == Less(pairs, v)
      RECURSIVE FirstNew(_)
      FirstNew(s) == IF s = <<>> THEN 0 ELSE IF Head(s) \in seen2 THEN FirstNew(Tail(s)) ELSE Head(s)
      x == FirstNew(ch)
  IN IF x = 0 THEN [q |-> SubSeq(st.q, 1, Len(st.q) - 1), seen |-> seen2, result |-> <<v>> \o st.result]
     ELSE [q |-> Append(st.q, x), seen |-> seen2, result |-> st.result]
RECURSIVE TopoRun(_, _)
TopoRun(pairs, st) == IF st.q = <<>> THEN st.result ELSE TopoRun(pairs, TopoStep(pairs, st))
TopoSort(pairs) == TopoRun(pairs, TopoInit(pairs))
Circular(pairs) == TopoInit(pairs).q = <<>>       \* the only cycle test the code makes

IsTopoOrder(pairs, order) ==
  /\ \A a, b \in 1..Len(order) : a # b => order[a] # order[b]
  /\ \A n \in 1..Len(pairs) : \E a, b \in 1..Len(order) : order[a] = pairs[n][1] /\ order[b] = pairs[n][2] /\ a < b
RECURSIVE Reach(_, _, _)
Reach(pairs, S, n) == IF n = 0 THEN S
                      ELSE Reach(pairs, S \cup {pairs[m][2] : m \in {m \in 1..Len(pairs) : pairs[m][1] \in S}}, n - 1)
Acyclic(pairs) == \A n \in 1..Len(pairs) :
                    pairs[n][1] \notin Reach(pairs, {pairs[n][2]}, Len(pairs))

\* ---- min / max passes ---------------------------------------------------------------------------
Mix(step, a, b) == IF step = One THEN a ELSE RAdd(RMul(step, a), RMul(RSub(One, step), b))
RECURSIVE MinPass(_, _, _, _, _)
MinPass(pairs, w, order, n, step) ==      \* nodes order[n], order[n-1], .. (reverse topological)
  IF n = 0 THEN w
  ELSE LET i == order[n]  js == Less(pairs, i) IN
       IF js = <<>> THEN MinPass(pairs, w, order, n - 1, step)
       ELSE LET m == RMin(w[i], RMinSeq([k \in 1..Len(js) |-> w[js[k]]]))
            IN MinPass(pairs, [w EXCEPT ![i] = Mix(step, m, w[i])], order, n - 1, step)
RECURSIVE MaxPass(_, _, _, _, _)
MaxPass(pairs, w, order, n, step) ==      \* nodes order[n], order[n+1], .. (topological)
  IF n > Len(order) THEN w
  ELSE LET i == order[n]  js == Greater(pairs, i) IN
       IF js = <<>> THEN MaxPass(pairs, w, order, n + 1, step)
       ELSE LET m == RMax(w[i], RMaxSeq([k \in 1..Len(js) |-> w[js[k]]]))
            IN MaxPass(pairs, [w EXCEPT ![i] = Mix(step, m, w[i])], order, n + 1, step)
Half == <<1, 2>>
MinMax(pairs, w, order) == MaxPass(pairs, MinPass(pairs, w, order, Len(order), Half), order, 1, One)
MaxMin(pairs, w, order) == MinPass(pairs, MaxPass(pairs, w, order, 1, Half), order, Len(order), One)
PartialOrderProject(pairs, w) ==
  LET order == TopoSort(pairs)
      a == MinMax(pairs, w, order)  b == MaxMin(pairs, w, order)
  IN [i \in 1..Len(w) |-> RHalf(RAdd(a[i], b[i]))]
PairsOK(pairs, w, tol) == \A n \in 1..Len(pairs) : RLeq(w[pairs[n][1]], RAdd(w[pairs[n][2]], tol))

\* ---- categorical calibration ---------------------------------------------------------------------
\* c = [kind |-> "cat", nb, pairs, hasMin, omin, hasMax, omax]
ClipSeq(c, w) == [i \in 1..Len(w) |->
                    LET a == IF c.hasMin THEN RMax(w[i], c.omin) ELSE w[i]
                    IN IF c.hasMax THEN RMin(a, c.omax) ELSE a]
CatProject(c, w) == ClipSeq(c, IF c.pairs = <<>> THEN w ELSE PartialOrderProject(c.pairs, w))
CatBoundsOK(c, w, tol) == \A i \in 1..Len(w) : /\ (c.hasMin => RLeq(c.omin, RAdd(w[i], tol)))
                                               /\ (c.hasMax => RLeq(w[i], RAdd(c.omax, tol)))
CatFeasible(c, w) == PairsOK(c.pairs, w, Zero) /\ CatBoundsOK(c, w, Zero)

\* ---- linear layer ---------------------------------------------------------------------------------
\* c = [kind |-> "linear", mono (seq of -1/0/1), mdom, rdom (seqs of <<dominant, weak>>),
\*      range (seq of rationals: input_max - input_min, 1 where unbounded), norm \in {0, 1, 2}]
Signs(c, w) == [i \in 1..Len(w) |-> IF c.mono[i] = 1 THEN RMax(w[i], Zero)
                                    ELSE IF c.mono[i] = -1 THEN RMin(w[i], Zero) ELSE w[i]]
Swap(ps) == [n \in 1..Len(ps) |-> <<ps[n][2], ps[n][1]>>]      \* (dominant, weak) -> weak <= dominant
Scaling(c, i) == IF c.mono[i] = -1 THEN RNeg(c.range[i]) ELSE c.range[i]
RDomProject(c, w) ==
  LET sw == [i \in 1..Len(w) |-> RMul(w[i], Scaling(c, i))]
      pw == PartialOrderProject(Swap(c.rdom), sw)
  IN [i \in 1..Len(w) |-> RDiv(pw[i], Scaling(c, i))]
L1(w) == RSumSeq([i \in 1..Len(w) |-> RAbs(w[i])])
NormEps == <<1, 10000>>
NormalizeL1(w) == LET n == L1(w) IN IF RLt(n, NormEps) THEN w ELSE [i \in 1..Len(w) |-> RDiv(w[i], n)]
LinSteps(c) == (IF \E i \in 1..Len(c.mono) : c.mono[i] # 0 THEN <<"S">> ELSE <<>>)
               \o (IF c.mdom # <<>> THEN <<"D">> ELSE <<>>) \o (IF c.rdom # <<>> THEN <<"R">> ELSE <<>>)
               \o (IF c.norm = 1 THEN <<"N">> ELSE <<>>)
LinStep(c, s, w) == CASE s = "S" -> Signs(c, w)
                      [] s = "D" -> PartialOrderProject(Swap(c.mdom), w)
                      [] s = "R" -> RDomProject(c, w)
                      [] s = "N" -> NormalizeL1(w)
RECURSIVE LinRun(_, _, _)
LinRun(c, ss, w) == IF ss = <<>> THEN w ELSE LinRun(c, Tail(ss), LinStep(c, Head(ss), w))
LinProject(c, w) == LinRun(c, LinSteps(c), w)        \* linear_lib.project with L1 / no normalization

SignsOK(c, w) == \A i \in 1..Len(w) : (c.mono[i] = 1 => w[i][1] >= 0) /\ (c.mono[i] = -1 => w[i][1] <= 0)
MDomOK(c, w, tol) == \A n \in 1..Len(c.mdom) : RLeq(w[c.mdom[n][2]], RAdd(w[c.mdom[n][1]], tol))
RDomOK(c, w, tol) == \A n \in 1..Len(c.rdom) :
                       RLeq(RMul(w[c.rdom[n][2]], Scaling(c, c.rdom[n][2])),
                            RAdd(RMul(w[c.rdom[n][1]], Scaling(c, c.rdom[n][1])), tol))
L1NormOK(c, w, tol) == c.norm # 1 \/ RLt(L1(w), NormEps) \/ RNear(L1(w), One, tol)
LinFeasible(c, w) == SignsOK(c, w) /\ MDomOK(c, w, Zero) /\ RDomOK(c, w, Zero) /\ (c.norm = 1 => L1(w) = One)
=============================================================================
