---------------------------- MODULE CalibratorEval ----------------------------
(* State machine for C05 (PWL part): any keypoints, kernel and input; MoveUp moves the input up.  *)
EXTENDS CalibratorOps
CONSTANTS KpSet, KDom, XGrid
VARIABLES cfg, kern, x
vars == <<cfg, kern, x>>
Init == /\ cfg \in {[kp |-> RSeq(k), cyclic |-> cy] : k \in KpSet, cy \in BOOLEAN}
        /\ kern \in [1..(NK(cfg) - (IF cfg.cyclic THEN 1 ELSE 0)) -> {R(a) : a \in KDom}]
        /\ x \in XGrid
MoveUp == \E v \in XGrid : RLt(x, v) /\ x' = v /\ UNCHANGED <<cfg, kern>>
Spec == Init /\ [][MoveUp]_vars
F(v) == PwlEval(cfg, kern, v)
KO == KeypointsOutputs(cfg, kern)
\* passes through (keypoint_i, cumulative kernel sum_i)
InvThrough == \A i \in 1..NK(cfg) : F(cfg.kp[i]) = KO[i]
\* constant outside the keypoint range
InvOutside == /\ (RLeq(x, cfg.kp[1]) => F(x) = KO[1])
              /\ (RLeq(cfg.kp[NK(cfg)], x) => F(x) = KO[NK(cfg)])
InvCyclic == cfg.cyclic => KO[1] = KO[NK(cfg)]
\* between the smallest and largest keypoint output (bounded keypoint outputs => bounded function)
InvHull == RLeq(RMinSeq(KO), F(x)) /\ RLeq(F(x), RMaxSeq(KO))
\* piecewise linear: on a segment the value is the linear interpolation of its end points
InvLinear == \A j \in 1..(NK(cfg) - 1) :
               (RLeq(cfg.kp[j], x) /\ RLeq(x, cfg.kp[j + 1])) =>
                 F(x) = RAdd(KO[j], RMul(RSub(KO[j + 1], KO[j]), RDiv(RSub(x, cfg.kp[j]), SegLen(cfg, j))))
MonoKernel == \A i \in 2..Len(kern) : kern[i][1] >= 0
AntiKernel == \A i \in 2..Len(kern) : kern[i][1] <= 0
InheritMono == [][(RLt(x, x') /\ MonoKernel /\ ~cfg.cyclic) => RLeq(F(x), F(x'))]_vars
InheritAnti == [][(RLt(x, x') /\ AntiKernel /\ ~cfg.cyclic) => RLeq(F(x'), F(x))]_vars
=============================================================================
