------------------------- MODULE TraceCalibratorEval -------------------------
(* code -> spec for C05.  Events from real PWLCalibration / CategoricalCalibration layers:       *)
(*  Pwl     [kp (rationals), cyclic, kden, k, xden, x, missing (flag), mo (missing output, kden), oden, out] *)
(*  KpOut   [kp, cyclic, kden, k, oden, outs]            layer.keypoints_outputs()                 *)
(*  KpIn    [kp, xden, ins]                               layer.keypoints_inputs()                  *)
(*  Cat     [kden, k, idx, hasDefault, default, oden, out]                                         *)
(*  Learned [lo, hi (configured end points), xden, ins (reported keypoints), oden, kouts, fouts]   *)
EXTENDS CalibratorOps, TraceBase
VARIABLE l
tvars == <<l>>
Nm(p) == Norm(p[1], p[2])
C(e) == [kp |-> [i \in 1..Len(e.kp) |-> Nm(e.kp[i])], cyclic |-> e.cyclic]
Clauses(e) ==
  CASE e.ev = "Pwl" ->
         LET want == PwlEvalMissing(C(e), FxSeq(e.k, e.kden), Norm(e.x, e.xden), e.missing, Norm(e.mo, e.kden))
         IN IF FxNear(e.out, e.tolu, e.oden, want) THEN {} ELSE {"PwlFunction"}
    [] e.ev = "KpOut" ->
         LET ko == KeypointsOutputs(C(e), FxSeq(e.k, e.kden))
         IN IF Len(ko) = Len(e.outs) /\ \A i \in 1..Len(ko) : FxNear(e.outs[i], e.tolu, e.oden, ko[i])
            THEN {} ELSE {"KeypointsOutputs"}
    [] e.ev = "KpIn" ->
         IF Len(e.ins) = Len(e.kp) /\ \A i \in 1..Len(e.kp) : FxNear(e.ins[i], 1, e.xden, Nm(e.kp[i]))
         THEN {} ELSE {"KeypointsInputs"}
    [] e.ev = "Cat" ->
         IF FxNear(e.out, e.tolu, e.oden, CatEval(FxSeq(e.k, e.kden), e.idx, e.hasDefault, e.default))
         THEN {} ELSE {"CategoricalFunction"}
    [] e.ev = "Learned" ->
         LET n == Len(e.ins) IN
         (IF \A i \in 1..(n - 1) : e.ins[i] <= e.ins[i + 1] THEN {} ELSE {"LearnedOrdered"})
         \cup (IF (~e.strict) \/ \A i \in 1..(n - 1) : e.ins[i] < e.ins[i + 1] THEN {} ELSE {"LearnedStrictlyOrdered"})
         \cup (IF FxNear(e.ins[1], 2, e.xden, Nm(e.lo)) /\ FxNear(e.ins[n], e.endtol, e.xden, Nm(e.hi)) THEN {} ELSE {"LearnedEndpoints"})
         \* the function passes through every reported point that is separated from its neighbours
         \* (keypoints that coincide in float32 make a jump there)
         \cup (IF \A i \in 1..n :
                   ((i = 1 \/ e.ins[i] - e.ins[i - 1] > e.sep) /\ (i = n \/ e.ins[i + 1] - e.ins[i] > e.sep))
                     => (e.fouts[i] - e.kouts[i] <= e.tolu /\ e.kouts[i] - e.fouts[i] <= e.tolu)
               THEN {} ELSE {"LearnedPassesThrough"})
    [] e.ev = "Raised" -> {"Raised"}
    [] e.ev = "NonFinite" -> {"Finite"}
TraceInit == l = 1
TraceNext == /\ l <= Len(Trace) /\ l' = l + 1 /\ Record(Trace[l].i, Clauses(Trace[l]))
TraceSpec == TraceInit /\ [][TraceNext]_tvars
ASSUME TLCSet(1, {})
=============================================================================
