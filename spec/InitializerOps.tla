----------------------------- MODULE InitializerOps -----------------------------
(* C10: the library's own initializers (lattice_lib.default_init_params / linear_initializer /    *)
(* random_monotonic_initializer, pwl_calibration_lib.linear_initializer) and what the property      *)
(* says about the weights they produce.  Lattice kernels are [Vertices -> Rat] (LatticeOps).         *)
EXTENDS LatticeOps
\* init range derived from the output bounds
InitMin(c) == IF c.hasMin THEN c.omin ELSE IF c.hasMax THEN RMin(Zero, c.omax) ELSE Zero
InitMax(c) == IF c.hasMax THEN c.omax ELSE IF c.hasMin THEN RMax(One, c.omin) ELSE One
NumConstr(c) == Cardinality({d \in Dims(c) : c.mono[d] # 0 \/ c.uni[d] # 0})
\* the per-dimension profile of linear_initializer (c.uni includes jointly unimodal dimensions)
EffMono(c, d) == IF NumConstr(c) = 0 THEN 1 ELSE c.mono[d]
Lin(a, b, n, i) == IF n = 1 THEN a ELSE RAdd(a, RDiv(RMul(RSub(b, a), R(i)), R(n - 1)))     \* _linspace[i], i = 0..n-1
OneD(c, d, i, rng) ==
  LET n == c.sizes[d]  h == (n + 1) \div 2 IN
  IF EffMono(c, d) # 0 THEN Lin(Zero, rng, n, i)
  ELSE IF c.uni[d] = 0 THEN Zero
  ELSE LET dec(k) == Lin(rng, Zero, h, k)  inc(k) == Lin(Zero, rng, h, k)
       IN IF c.uni[d] = 1 THEN (IF i < h THEN dec(i) ELSE inc(i - h + (n % 2)))
          ELSE (IF i < h THEN inc(i) ELSE dec(i - h + (n % 2)))
LinearInitKernel(c, lo, hi) ==
  LET k == IF NumConstr(c) = 0 THEN Rank(c) ELSE NumConstr(c)
      rng == RDiv(RSub(hi, lo), R(k))
  IN [v \in Vertices(c) |-> RAdd(lo, RSumSeq([d \in Dims(c) |-> OneD(c, d, v[d], rng)]))]
\* ---- what C10 says about a linearly initialised kernel -------------------------------------------
Step(c, x, v, d) == RSub(x[Up(c, v, d)], x[v])
LinearInitOK(c, x, lo, hi, tol) ==
  /\ \A d \in Dims(c), v \in Vertices(c) : v[d] < c.sizes[d] - 1 =>
        IF EffMono(c, d) # 0 THEN                       \* linear (equal, non-negative steps) along monotone dims
          /\ RLeq(RNeg(tol), Step(c, x, v, d))
          /\ (v[d] < c.sizes[d] - 2 => RNear(Step(c, x, v, d), Step(c, x, Up(c, v, d), d), tol))
        ELSE IF c.uni[d] # 0 THEN                       \* valley / peak shaped
          (IF PairDir(c, d, v[d]) = 1 THEN RLeq(RNeg(tol), Step(c, x, v, d)) ELSE RLeq(Step(c, x, v, d), tol))
        ELSE RNear(Step(c, x, v, d), Zero, tol)         \* constant along the others
  /\ RNear(KMin(c, x), lo, tol) /\ RNear(KMax(c, x), hi, tol)
\* random monotonic: non-decreasing along EVERY dimension and within the range
AllMono(c) == [c EXCEPT !.mono = [d \in Dims(c) |-> 1]]
RandomMonoOK(c, x, lo, hi, tol) ==
  /\ MonoOK(AllMono(c), x, tol)
  /\ \A v \in Vertices(c) : RLeq(RSub(lo, tol), x[v]) /\ RLeq(x[v], RAdd(hi, tol))
\* ---- PWL linear_initializer: kernel <<bias, heights>> ------------------------------------------
PwlInitKernel(lens, lo, hi, mono, equalSlopes) ==
  LET n == Len(lens)  tot == RSumSeq(lens)
      h(j) == IF equalSlopes THEN RMul(lens[j], RDiv(RSub(hi, lo), tot)) ELSE RDiv(RSub(hi, lo), R(n))
  IN [i \in 1..(n + 1) |-> IF i = 1 THEN (IF mono = -1 THEN hi ELSE lo)
                           ELSE IF mono = -1 THEN RNeg(h(i - 1)) ELSE h(i - 1)]
PwlInitOK(k, lens, lo, hi, mono, equalSlopes, tol) ==
  LET n == Len(lens)
      RECURSIVE Cm(_) Cm(i) == IF i = 1 THEN k[1] ELSE RAdd(Cm(i - 1), k[i])
  IN /\ RNear(k[1], IF mono = -1 THEN hi ELSE lo, tol)
     /\ RNear(Cm(n + 1), IF mono = -1 THEN lo ELSE hi, tol)
     /\ \A j \in 1..n : IF mono = -1 THEN RLeq(k[j + 1], tol) ELSE RLeq(RNeg(tol), k[j + 1])
     /\ \A j \in 1..(n - 1) :
          IF equalSlopes THEN RNear(RMul(k[j + 1], lens[j + 1]), RMul(k[j + 2], lens[j]), RMul(tol, R(8)))   \* equal slopes
          ELSE RNear(k[j + 1], k[j + 2], tol)                                                               \* equal heights
=============================================================================
