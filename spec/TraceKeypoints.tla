---------------------------- MODULE TraceKeypoints ----------------------------
(* code -> spec for C18: each event is one real premade_lib.compute_keypoints call                 *)
(*   [ev |-> "Keypoints", in (KeypointOps input record, integer data), den, kp (ints over den),     *)
(*    pwlOk (PWLCalibration(input_keypoints = result) constructs), exact]                            *)
(*   or [ev |-> "Raised", in, exc].                                                                 *)
EXTENDS KeypointOps, TraceBase
VARIABLE l
tvars == <<l>>
Clauses(e) ==
  IF e.ev = "Raised" THEN {"ReturnsWithoutError"}
  ELSE LET kp == FxSeq(e.kp, e.den)  tol == Norm(1, e.den) IN
       (IF KeypointsOK(e.in, kp, tol) THEN {} ELSE {"KeypointsValid"})
       \cup (IF (NumDistinct(e.in) >= 2) => e.pwlOk THEN {} ELSE {"AcceptedByPWLCalibration"})
       \cup (IF e.exact /\ ~(\E r \in Results(e.in) : Len(r) = Len(kp) /\ \A j \in 1..Len(r) : RNear(r[j], kp[j], tol))
             THEN {"DRIFT:Keypoints"} ELSE {})
TraceInit == l = 1
TraceNext == /\ l <= Len(Trace) /\ l' = l + 1 /\ Record(Trace[l].i, Clauses(Trace[l]))
TraceSpec == TraceInit /\ [][TraceNext]_tvars
ASSUME TLCSet(1, {})
=============================================================================
