----------------------------- MODULE ConfigSpaceMC -----------------------------
(* The full cross product of constructor arguments over small domains, valid and invalid.            *)
EXTENDS ConfigSpace, Json, IOUtils, SequencesExt
VARIABLE c
N0 == <<>>
LatSpace ==
  {[kind |-> "lattice", sizes |-> s, mono |-> m, uni |-> u, edge |-> e, trap |-> t, mdom |-> md, rdom |-> rd, jmono |-> jm,
    juni |-> ju, hasMin |-> b[1], omin |-> b[2], hasMax |-> b[3], omax |-> b[4]] :
     s \in {<<1, 2>>, <<2, 2>>, <<3, 2>>, <<2, 3>>}, m \in {<<0, 0>>, <<1, 0>>, <<1, 1>>}, u \in {<<0, 0>>, <<1, 0>>, <<0, -1>>},
     e \in {N0, << <<0, 1, 1>> >>, << <<1, 0, -1>> >>}, t \in {N0, << <<0, 1, 1>> >>, << <<1, 0, 1>> >>, << <<0, 1, -1>> >>},
     md \in {N0, << <<0, 1>> >>}, rd \in {N0, << <<1, 0>> >>}, jm \in {N0, << <<0, 1>> >>},
     ju \in {N0, << << <<0>>, "valley">> >>, << << <<0, 1>>, "peak">> >>},
     b \in {<<FALSE, 0, FALSE, 1>>, <<TRUE, 0, TRUE, 1>>, <<TRUE, 1, TRUE, 0>>, <<TRUE, 1, TRUE, 1>>, <<TRUE, 0, FALSE, 1>>}}
\* rank 3: lists of two trusts in either order - chains (a feature conditional in one trust and main in another),
\* shared main / shared conditional features, an Edgeworth trust next to a trapezoid trust
T(a, b, d) == <<a, b, d>>
LatSpace3 ==
  {[kind |-> "lattice", sizes |-> <<2, 2, 2>>, mono |-> m, uni |-> <<0, 0, 0>>, edge |-> e, trap |-> t, mdom |-> N0, rdom |-> N0,
    jmono |-> N0, juni |-> N0, hasMin |-> FALSE, omin |-> 0, hasMax |-> FALSE, omax |-> 1] :
     m \in {<<1, 1, 0>>, <<1, 1, 1>>},
     e \in {N0, <<T(0, 1, 1), T(1, 2, 1)>>, <<T(1, 2, 1), T(0, 1, 1)>>, <<T(0, 1, 1), T(0, 2, 1)>>, <<T(0, 2, 1), T(1, 2, -1)>>,
            <<T(0, 1, 1)>>},
     t \in {N0, <<T(1, 2, -1)>>, <<T(0, 1, 1)>>, <<T(1, 2, 1), T(0, 1, -1)>>, <<T(0, 1, -1), T(1, 2, 1)>>}}
\* lk = <<learned interior keypoints?, units>>: multi-unit calibrators are evaluated on ONE shared input column
PwlSpace ==
  {[kind |-> "pwl", kp |-> k, mono |-> m, conv |-> cv, cyclic |-> cy, hasMin |-> b[1], omin |-> b[2], hasMax |-> b[3], omax |-> b[4],
    clampMin |-> cm, clampMax |-> cx, learned |-> lk[1], units |-> lk[2]] :
     lk \in {<<FALSE, 1>>, <<FALSE, 2>>, <<TRUE, 2>>},
     k \in {<<0, 1>>, <<0, 1, 3>>, <<0, 0, 1>>, <<2, 1, 3>>, <<0>>}, m \in {-1, 0, 1}, cv \in {-1, 0, 1}, cy \in BOOLEAN,
     b \in {<<FALSE, 0, FALSE, 1>>, <<TRUE, 0, TRUE, 1>>, <<TRUE, 1, TRUE, 0>>, <<TRUE, 1, TRUE, 1>>, <<TRUE, 0, FALSE, 1>>, <<FALSE, 0, TRUE, 1>>},
     cm \in BOOLEAN, cx \in BOOLEAN}
LinSpace ==
  {[kind |-> "linear", mono |-> m, mdom |-> md, rdom |-> rd, hasBounds |-> hb, lo |-> <<0, 0, 0>>, hi |-> h, norm |-> nm] :
     m \in {<<1, 1, 0>>, <<1, -1, 1>>, <<-1, -1, 0>>, <<0, 0, 0>>}, md \in {N0, << <<0, 1>> >>, << <<0, 1>>, <<1, 0>> >>, << <<0, 2>> >>},
     rd \in {N0, << <<0, 1>> >>, << <<1, 0>> >>, << <<1, 0>>, <<0, 1>> >>}, hb \in {<<TRUE, TRUE, TRUE>>, <<FALSE, FALSE, FALSE>>, <<TRUE, FALSE, TRUE>>},
     \* input_max (input_min is 0): all ranges non-empty; an empty range on input 1, on input 0, on input 2 (an input
     \* outside every dominance pair); a reversed range
     h \in {<<1, 2, 1>>, <<1, 0, 1>>, <<0, 2, 1>>, <<1, 2, 0>>, <<-1, 1, 1>>}, nm \in {0, 1, 2}}
CatSpace ==
  {[kind |-> "cat", nb |-> n, pairs |-> p, hasMin |-> b[1], omin |-> b[2], hasMax |-> b[3], omax |-> b[4]] :
     n \in {2, 3}, p \in {N0, << <<0, 1>> >>, << <<0, 1>>, <<1, 0>> >>, << <<0, 1>>, <<1, 2>>, <<2, 0>> >>, << <<0, 1>>, <<1, 2>> >>, << <<0, 3>> >>},
     b \in {<<FALSE, 0, FALSE, 1>>, <<TRUE, 0, TRUE, 1>>, <<TRUE, 1, TRUE, 0>>, <<TRUE, 1, TRUE, 1>>}}
KflSpace ==
  {[kind |-> "kfl", L |-> l, dims |-> 2, mono |-> m, hasMin |-> b[1], omin |-> b[2], hasMax |-> b[3], omax |-> b[4]] :
     l \in {1, 2, 3}, m \in {<<0, 0>>, <<1, 0>>, <<1, 1>>},
     b \in {<<FALSE, 0, FALSE, 1>>, <<TRUE, 0, TRUE, 1>>, <<TRUE, 1, TRUE, 0>>, <<TRUE, 1, TRUE, 1>>, <<TRUE, 0, FALSE, 1>>, <<FALSE, 0, TRUE, 1>>}}
All == LatSpace \cup LatSpace3 \cup PwlSpace \cup LinSpace \cup CatSpace \cup KflSpace
Init == c \in All
Next == UNCHANGED c
InvConsistent == Consistent(c)
\* spec -> code: the whole space (the harness samples the lattice part in the quick tier)
ASSUME IOEnv.CASES_OUT = "" \/ ndJsonSerialize(IOEnv.CASES_OUT, SetToSeq(All))
=============================================================================
