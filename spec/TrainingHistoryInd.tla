------------------------- MODULE TrainingHistoryInd -------------------------
(* The life-cycle machine of TrainingHistory.tla in a form Apalache can type (snapshot as a record with a   *)
(* `has` flag, no history variable), with an inductive invariant: the quiescent-feasibility property holds   *)
(* for histories of ANY length, not only for the MaxSteps explored by TLC.                                   *)
EXTENDS Integers, FiniteSets
Vars == {"calib", "kfl_kernel", "kfl_scale"}
\* <<v, w>>: the constraint of v reads the current value of w
Partner(v) == IF v = "kfl_kernel" THEN {"kfl_scale"} ELSE {}
VARIABLES
  \* @type: Str -> Bool;
  feas,
  \* @type: Str -> Int;
  tok,
  \* @type: Str -> Int;
  against,
  \* @type: Set(Str);
  pending,
  \* @type: Str;
  pc,
  \* @type: { has: Bool, feas: Str -> Bool, tok: Str -> Int, against: Str -> Int };
  saved,
  \* @type: Bool;
  alive,
  \* @type: Int;
  fresh

PartnerTok(v) == IF v = "kfl_kernel" THEN tok["kfl_scale"] ELSE 0
Init == /\ feas = [v \in Vars |-> TRUE] /\ tok = [v \in Vars |-> 0] /\ against = [v \in Vars |-> 0]
        /\ pending = {} /\ pc = "idle" /\ alive = TRUE /\ fresh = 1
        /\ saved = [has |-> FALSE, feas |-> [v \in Vars |-> TRUE], tok |-> [v \in Vars |-> 0], against |-> [v \in Vars |-> 0]]
BeginStep == /\ alive /\ pc = "idle"
             /\ feas' = [v \in Vars |-> FALSE] /\ tok' = [v \in Vars |-> fresh] /\ fresh' = fresh + 1
             /\ pending' = Vars /\ pc' = "step" /\ UNCHANGED <<against, saved, alive>>
Constrain(v) == /\ alive /\ pc = "step" /\ v \in pending
                /\ feas' = [feas EXCEPT ![v] = TRUE]
                /\ against' = [against EXCEPT ![v] = PartnerTok(v)]
                /\ pending' = pending \ {v} /\ UNCHANGED <<tok, pc, saved, alive, fresh>>
EndStep == /\ alive /\ pc = "step" /\ pending = {} /\ pc' = "idle"
           /\ UNCHANGED <<feas, tok, against, pending, saved, alive, fresh>>
Save == /\ alive /\ pc = "idle" /\ saved' = [has |-> TRUE, feas |-> feas, tok |-> tok, against |-> against]
        /\ UNCHANGED <<feas, tok, against, pending, pc, alive, fresh>>
Restore == /\ alive /\ pc = "idle" /\ saved.has
           /\ feas' = saved.feas /\ tok' = saved.tok /\ against' = saved.against
           /\ UNCHANGED <<pending, pc, saved, alive, fresh>>
Finalize == /\ alive /\ pc = "idle" /\ feas' = [v \in Vars |-> TRUE]
            /\ against' = [v \in Vars |-> PartnerTok(v)]
            /\ UNCHANGED <<tok, pending, pc, saved, alive, fresh>>
Crash == /\ alive /\ alive' = FALSE /\ pending' = {} /\ pc' = "idle"
         /\ UNCHANGED <<feas, tok, against, saved, fresh>>
Recover == /\ ~alive /\ alive' = TRUE
           /\ IF saved.has
              THEN feas' = saved.feas /\ tok' = saved.tok /\ against' = saved.against
              ELSE feas' = [v \in Vars |-> TRUE] /\ tok' = [v \in Vars |-> 0] /\ against' = [v \in Vars |-> 0]
           /\ UNCHANGED <<pending, pc, saved, fresh>>
Next == BeginStep \/ (\E v \in Vars : Constrain(v)) \/ EndStep \/ Save \/ Restore \/ Finalize \/ Crash \/ Recover

\* @type: (Str -> Bool, Str -> Int, Str -> Int) => Bool;
Consistent(f, t, a) == a["kfl_kernel"] = t["kfl_scale"]
\* the property
Safe == (alive /\ pc = "idle") => (\A v \in Vars : feas[v]) /\ Consistent(feas, tok, against)
\* the inductive strengthening
TypeOK ==
  /\ pc \in {"idle", "step"} /\ pending \in SUBSET Vars /\ alive \in BOOLEAN /\ fresh \in Int
  /\ feas \in [Vars -> BOOLEAN] /\ tok \in [Vars -> Int] /\ against \in [Vars -> Int]
  /\ saved \in [has : BOOLEAN, feas : [Vars -> BOOLEAN], tok : [Vars -> Int], against : [Vars -> Int]]
IndInv ==
  /\ TypeOK
  /\ (pc = "idle" => pending = {})
  /\ (~alive => pc = "idle")
  /\ (alive /\ pc = "idle") => ((\A v \in Vars : feas[v]) /\ Consistent(feas, tok, against))
  /\ (alive /\ pc = "step") => /\ \A v \in Vars \ pending : feas[v]
                               /\ ("kfl_kernel" \notin pending => against["kfl_kernel"] = tok["kfl_scale"])
  /\ saved.has => ((\A v \in Vars : saved.feas[v]) /\ Consistent(saved.feas, saved.tok, saved.against))
IndInit == IndInv
=============================================================================
