---------------------------- MODULE DykstraProps ----------------------------
(* C08 at design level: properties of the Dykstra part of LatticeConstraint.                  *)
(*  ProjectionExact  every group step returns the exact L2 projection of the rolled-back point *)
(*                   onto the group's constraint set C_g: the result is in C_g (it is a fixed  *)
(*                   point of the group operator) and satisfies the variational inequality     *)
(*                   <r - p, y - p> <= 0 against every y in C_g with entries in TestDom        *)
(*  Bookkeeping      Dykstra's roll-back identity  w = w0 + sum of the remembered changes      *)
(*  FixedPointStep   (LatticeConstraint) feasible kernels are fixed points of every group      *)
EXTENDS LatticeConstraint

CONSTANT TestDom

Dot(c, a, b) == LET RECURSIVE S(_)
                    S(T) == IF T = {} THEN Zero
                            ELSE LET v == CHOOSE v \in T : TRUE IN RAdd(RMul(a[v], b[v]), S(T \ {v}))
                IN S(Vertices(c))
TestKernels == [Vertices(cfg) -> {R(a) : a \in TestDom}]
InGroupSet(key, y) == GroupOp(cfg, key, y) = y

\* Range dominance is excluded: its corner groups move only two of the three vertices involved
\* ("the shared vertex stays"), which lands in the set but is not the L2-nearest point - the
\* property statement accordingly does not claim a nearest-point limit for range dominance.
ExactKinds == {"M", "E", "T", "D", "J", "U"}
ProjectionExact ==
  [][(InDyk /\ Groups[Pos][1] \in ExactKinds) =>
       LET r == KMinus(w, lc[Pos])
           p == w'
       IN /\ InGroupSet(Groups[Pos], p)
          /\ \A y \in TestKernels :
               InGroupSet(Groups[Pos], y) => RLeq(Dot(cfg, KMinus(r, p), KMinus(y, p)), Zero)]_vars

RECURSIVE SumLc(_)
SumLc(n) == IF n = 0 THEN KZero(cfg)
            ELSE [v \in Vertices(cfg) |-> RAdd(lc[n][v], SumLc(n - 1)[v])]
\* every group result (range dominance included) lies in its group set
LandsInSet == [][InDyk => InGroupSet(Groups[Pos], w')]_vars
Bookkeeping == (k <= DykSteps + 1 /\ DykSteps > 0) =>
                 w = [v \in Vertices(cfg) |-> RAdd(w0[v], SumLc(NG)[v])]
=============================================================================
