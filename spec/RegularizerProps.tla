--------------------------- MODULE RegularizerProps ---------------------------
(* Algebraic clauses of C13 checked by TLC on every small kernel.                                *)
EXTENDS Regularizers
CONSTANTS SizeSet, KDom, Amounts, PwlLens
VARIABLES kind, cfg, x, pk, cyc, a1, a2
vars == <<kind, cfg, x, pk, cyc, a1, a2>>
Mk(s) == [sizes |-> s]
\* TLC evaluates invariants of initial states in a single thread, so the choice is made by an action
Blank == [sizes |-> <<2>>]
Init == kind = "init" /\ cfg = Blank /\ x = [v \in Vertices(Blank) |-> Zero] /\ pk = <<>> /\ cyc = FALSE /\ a1 = Zero /\ a2 = Zero
\* two levels, so that the kernels of different configurations are enumerated by different workers
PickCfg == /\ kind = "init"
           /\ kind' \in {"lattice?", "pwl?"}
           /\ a1' \in Amounts /\ a2' \in Amounts
           /\ IF kind' = "lattice?" THEN cfg' \in {Mk(s) : s \in SizeSet} /\ cyc' = FALSE /\ pk' = <<>>
              ELSE cfg' = Blank /\ cyc' \in BOOLEAN /\ pk' \in {[i \in 1..n |-> Zero] : n \in PwlLens}
           /\ x' = x
PickKernel == \/ /\ kind = "lattice?" /\ kind' = "lattice"
                 /\ x' \in [Vertices(cfg) -> {R(v) : v \in KDom}] /\ UNCHANGED <<cfg, pk, cyc, a1, a2>>
              \/ /\ kind = "pwl?" /\ kind' = "pwl"
                 /\ pk' \in [1..Len(pk) -> {R(v) : v \in KDom}] /\ UNCHANGED <<cfg, x, cyc, a1, a2>>
Next == PickCfg \/ PickKernel
Per(a) == [d \in Dims(cfg) |-> a]
PW(a) == [p \in DimPairs(cfg) |-> a]
Lap(b1, b2) == LatLaplacian(cfg, x, Per(b1), Per(b2))
Tor(b1, b2) == LatTorsion(cfg, x, PW(b1), PW(b2))
Constant == \A v, u \in Vertices(cfg) : x[v] = x[u]
\* additively separable: every 2x2 twist vanishes
Separable == \A p \in DimPairs(cfg) : \A v \in Squares(cfg, p[1], p[2]) : Twist(cfg, x, v, p[1], p[2]) = Zero
IsAdditive == \E f \in [Dims(cfg) -> [0..(MaxSize(cfg) - 1) -> {R(v) : v \in KDom}]] :
                \A v \in Vertices(cfg) : x[v] = RAdd(RSumSeq([d \in Dims(cfg) |-> f[d][v[d]]]), Zero)
InvLattice == kind = "lattice" =>
  /\ RLeq(Zero, Lap(a1, a2)) /\ RLeq(Zero, Tor(a1, a2))
  /\ Lap(a1, a2) = RAdd(RMul(a1, Lap(One, Zero)), RMul(a2, Lap(Zero, One)))           \* linear in l1, l2
  /\ Tor(a1, a2) = RAdd(RMul(a1, Tor(One, Zero)), RMul(a2, Tor(Zero, One)))
  /\ (Constant => Lap(a1, a2) = Zero)
  /\ (Separable => Tor(a1, a2) = Zero)
  /\ ((Lap(One, One) = Zero) => Constant)
InvAdditive == (kind = "lattice" /\ cfg.sizes = <<2, 2>> /\ IsAdditive) => Tor(One, One) = Zero
Outputs == Outs(pk)
LinearInIndex == \A i \in 1..(Len(pk) - 2) : RSub(Outputs[i + 2], Outputs[i + 1]) = RSub(Outputs[i + 1], Outputs[i])
QuadInIndex == \A i \in 1..(Len(pk) - 3) :
                 RSub(RSub(Outputs[i + 3], Outputs[i + 2]), RSub(Outputs[i + 2], Outputs[i + 1]))
                 = RSub(RSub(Outputs[i + 2], Outputs[i + 1]), RSub(Outputs[i + 1], Outputs[i]))
InvPwl == kind = "pwl" =>
  /\ RLeq(Zero, PwlLaplacian(pk, cyc, a1, a2)) /\ RLeq(Zero, PwlHessian(pk, cyc, a1, a2)) /\ RLeq(Zero, PwlWrinkle(pk, cyc, a1, a2))
  /\ PwlHessian(pk, cyc, a1, a2) = RAdd(RMul(a1, PwlHessian(pk, cyc, One, Zero)), RMul(a2, PwlHessian(pk, cyc, Zero, One)))
  /\ PwlWrinkle(pk, cyc, a1, a2) = RAdd(RMul(a1, PwlWrinkle(pk, cyc, One, Zero)), RMul(a2, PwlWrinkle(pk, cyc, Zero, One)))
  /\ ((\A i \in 2..Len(pk) : pk[i] = Zero) => PwlLaplacian(pk, cyc, a1, a2) = Zero)      \* constant function
  /\ ((~cyc /\ LinearInIndex) => PwlHessian(pk, cyc, a1, a2) = Zero)
  /\ ((~cyc /\ QuadInIndex) => PwlWrinkle(pk, cyc, a1, a2) = Zero)
=============================================================================
