----------------------------- MODULE MC_KflLayer -----------------------------
EXTENDS KflLayer, Json, IOUtils, SequencesExt
K(l, dm, tm, m, b, lo, hi, cl) == [L |-> l, dims |-> dm, terms |-> tm, mono |-> m, hasMin |-> b[1], omin |-> R(lo),
                                   hasMax |-> b[2], omax |-> R(hi), clip |-> cl]
AllB == {<<FALSE, FALSE>>, <<TRUE, TRUE>>, <<TRUE, FALSE>>, <<FALSE, TRUE>>}
SpaceQ == {K(2, 2, 1, m, b, 0, 2, cl) : m \in {<<0, 0>>, <<1, 0>>, <<1, 1>>}, b \in AllB, cl \in BOOLEAN}
KQ == {-1, 0, 2}
SQ == {<<-3, 1>>, <<-1, 2>>, <<0, 1>>, <<1, 2>>, <<2, 1>>}
XQ == {<<-1, 2>>, <<0, 1>>, <<1, 2>>, <<1, 1>>, <<3, 2>>}
SpaceT1 == {K(2, 2, 2, m, b, 0, 2, TRUE) : m \in {<<0, 0>>, <<1, 0>>, <<1, 1>>}, b \in AllB}
KT1 == {-1, 2}
SpaceT2 == {K(3, 2, 1, m, b, -1, 1, cl) : m \in {<<0, 0>>, <<0, 1>>, <<1, 1>>}, b \in AllB, cl \in BOOLEAN}
KT2 == {-1, 0, 2}
XT2 == {<<-1, 2>>, <<0, 1>>, <<1, 2>>, <<1, 1>>, <<3, 2>>, <<2, 1>>, <<5, 2>>}
SpaceT3 == {K(2, 3, 1, m, b, 0, 1, TRUE) : m \in {<<0, 0, 0>>, <<1, 0, 1>>, <<1, 1, 1>>}, b \in AllB}
KT3 == {-1, 2}
XT3 == {<<0, 1>>, <<1, 2>>, <<1, 1>>}
CaseFile(space, kd, sd, xg) == [cfgs |-> SetToSeq(space), kvals |-> SetToSeq(kd), svals |-> SetToSeq(sd), xgrid |-> SetToSeq(xg)]
Tier == IOEnv.VERIF_TIER
=============================================================================
