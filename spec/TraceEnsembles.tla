---------------------------- MODULE TraceEnsembles ----------------------------
(* code -> spec for C17.  Events recorded from the real library (RTL / crystals steps through the  *)
(* guarded hooks):                                                                                 *)
(*  Rtl      [nl, rank, inputs, shuffle1, shuffle2, swapped (seqs of <<mono, group, index>>),        *)
(*            structure (seq of <<monotonicities, lattices of indices>>), again (second run, same seed), *)
(*            nInc, nUnc (sizes of the 'increasing' / 'unconstrained' outputs),                      *)
(*            resp (per supplied column: <<supplied as increasing?, min, max change of the lattice outputs>>)] *)
(*  Random   [nf, nl, rank, lattices (feature numbers 1..nf), again, others (the same seed in fresh         *)
(*            interpreters with other string-hash seeds)]                                            *)
(*  Cover    [nf, rank, lattices]                                                                   *)
(*  Crystals [nf, nl, rank, tt, lp (scaled integer scores), uses, placed, final]                    *)
EXTENDS RtlOps, TraceBase
CR == INSTANCE CrystalsOps
VARIABLE l
tvars == <<l>>
IsPerm(a, b) == /\ Len(a) = Len(b)
                /\ \A x \in {a[k] : k \in 1..Len(a)} \cup {b[k] : k \in 1..Len(b)} :
                     Cardinality({k \in 1..Len(a) : a[k] = x}) = Cardinality({k \in 1..Len(b) : b[k] = x})
RECURSIVE SwapFix(_, _, _)
SwapFix(lats, rank, n) == IF n = 0 THEN lats ELSE LET r == SwapPass(lats, rank) IN IF r[2] THEN SwapFix(r[1], rank, n - 1) ELSE r[1]
Flatten(lats) == LET RECURSIVE FL(_) FL(k) == IF k > Len(lats) THEN <<>> ELSE lats[k] \o FL(k + 1) IN FL(1)
\* the real structure as lattices of input triples (position p of a lattice listed under monotonicities m)
InputOf(inputs, idx) == inputs[CHOOSE k \in 1..Len(inputs) : inputs[k][3] = idx]
StructLattices(e) ==
  LET RECURSIVE G(_)
      G(g) == IF g > Len(e.structure) THEN <<>>
              ELSE [k \in 1..Len(e.structure[g][2]) |->
                      [p \in 1..e.rank |-> InputOf(e.inputs, e.structure[g][2][k][p])]] \o G(g + 1)
  IN G(1)
RtlClauses(e) ==
  LET total == e.nl * e.rank
      lats == StructLattices(e)
      spec == SwapFix(Split(e.shuffle2, e.nl, e.rank), e.rank, 50)
  IN (IF IsPerm(e.shuffle1, e.inputs) THEN {} ELSE {"DRIFT:Shuffle1IsPermutation"})
     \cup (IF IsPerm(e.shuffle2, TileTruncate(e.shuffle1, total)) THEN {} ELSE {"DRIFT:Shuffle2OfTiled"})
     \cup (IF e.swapped = Flatten(spec) THEN {} ELSE {"DRIFT:SwapLoop"})
     \cup (IF Len(lats) = e.nl /\ StructureOK(e.inputs, lats, e.rank) THEN {} ELSE {"RtlStructure"})
     \cup (IF \A g \in 1..Len(e.structure) : \A k \in 1..Len(e.structure[g][2]) : \A p \in 1..e.rank :
                InputOf(e.inputs, e.structure[g][2][k][p])[1] = 1 => e.structure[g][1][p] = 1
           THEN {} ELSE {"IncreasingInputOnMonotoneSlot"})
     \* the same statement observed on the layer's behaviour (kernels increasing along monotone, decreasing along
     \* unconstrained dimensions): raising a column supplied as 'increasing' lowers no lattice output and raises one,
     \* raising an 'unconstrained' column raises none and lowers one
     \cup (IF \A c \in 1..Len(e.resp) : IF e.resp[c][1] = 1 THEN e.resp[c][2] >= 0 /\ e.resp[c][3] > 0
                                                            ELSE e.resp[c][3] <= 0 /\ e.resp[c][2] < 0
           THEN {} ELSE {"IncreasingInputBehavesMonotone"})
     \cup (IF e.nInc = Cardinality({k \in 1..Len(lats) : \E p \in 1..e.rank : lats[k][p][1] = 1})
              /\ e.nUnc = Len(lats) - e.nInc THEN {} ELSE {"OutputLabel"})
     \cup (IF e.again = e.structure THEN {} ELSE {"DeterministicInSeed"})
RandomClauses(e) ==
  (IF Len(e.lattices) = e.nl /\ \A k \in 1..Len(e.lattices) : Len(e.lattices[k]) = e.rank THEN {} ELSE {"LatticeRank"})
  \cup (IF \A f \in 1..e.nf : \E k \in 1..Len(e.lattices) : InSeq(f, e.lattices[k]) THEN {} ELSE {"EveryFeatureUsed"})
  \cup (IF \A k \in 1..Len(e.lattices) : \A a, b \in 1..Len(e.lattices[k]) : a # b => e.lattices[k][a] # e.lattices[k][b]
        THEN {} ELSE {"NoRepeatedFeature"})
  \cup (IF e.again = e.lattices /\ (Has(e, "others") => \A k \in 1..Len(e.others) : e.others[k] = e.lattices)
        THEN {} ELSE {"DeterministicInSeed"})
CoverClauses(e) ==
  (IF \A a, b \in 1..e.nf : a < b => \E k \in 1..Len(e.lattices) : InSeq(a, e.lattices[k]) /\ InSeq(b, e.lattices[k])
   THEN {} ELSE {"EveryPairCovered"})
  \cup (IF \A k \in 1..Len(e.lattices) : Len(e.lattices[k]) <= e.rank THEN {} ELSE {"LatticeRank"})
  \cup (IF Has(e, "others") => \A k \in 1..Len(e.others) : e.others[k] = e.lattices THEN {} ELSE {"DeterministicInSeed"})
CrystalsClauses(e) ==
  LET c == [nf |-> e.nf, nl |-> e.nl, rank |-> e.rank]
      tt == [a \in 1..e.nf |-> [b \in 1..e.nf |-> e.tt[a][b]]]
      lp == [a \in 1..e.nf |-> e.lp[a]]
      u == CR!Uses(c, tt, lp)
  IN (IF CR!EnsembleOK(c, e.final) THEN {} ELSE {"CrystalsEnsemble"})
     \cup (IF [f \in 1..e.nf |-> e.uses[f]] \in CR!PossibleUses(c, tt, lp) THEN {} ELSE {"DRIFT:UseAllocation"})
     \cup (IF CR!PlacedFrom(c, tt, [f \in 1..e.nf |-> e.uses[f]])[1] = e.placed THEN {} ELSE {"DRIFT:Placement"})
Clauses(e) == CASE e.ev = "Rtl" -> RtlClauses(e)
                [] e.ev = "Random" -> RandomClauses(e)
                [] e.ev = "Cover" -> CoverClauses(e)
                [] e.ev = "Crystals" -> CrystalsClauses(e)
                [] e.ev = "Raised" -> {"Raised"}
TraceInit == l = 1
TraceNext == /\ l <= Len(Trace) /\ l' = l + 1 /\ Record(Trace[l].i, Clauses(Trace[l]))
TraceSpec == TraceInit /\ [][TraceNext]_tvars
ASSUME TLCSet(1, {})
=============================================================================
