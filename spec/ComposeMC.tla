----------------------------- MODULE ComposeMC -----------------------------
(* C03, design level (A): for every instance (wiring + grids), every combination of layer         *)
(* weights that satisfies the layer contracts exactly, and every pair of input points on the       *)
(* grid (in range, out of range, missing) differing in one constrained feature, the model          *)
(* function is ordered as declared, and every output lies within the configured bounds.            *)
(* An instance is [m (Compose model), calG (per feature: set of calibrator output values),         *)
(* midG (per middle layer: set of weight values), combG, ocG, xs (per feature: set of points)].    *)
EXTENDS Compose
CONSTANTS Instances, RequireSufficient, AllowZeroNorm
VARIABLES inst, Wc, W
vars == <<inst, Wc, W>>

RECURSIVE SeqProd(_)
SeqProd(ss) == IF ss = <<>> THEN {<<>>} ELSE {<<h>> \o t : h \in Head(ss), t \in SeqProd(Tail(ss))}
KernOf(o) == [i \in 1..Len(o) |-> IF i = 1 THEN o[1] ELSE RSub(o[i], o[i - 1])]
CalSet(c, G) == IF c.kind = "pwl" THEN {k \in {KernOf(o) : o \in [1..Len(c.kp) -> G]} : OK(c, k, Zero)}
                ELSE {k \in [1..c.nb -> G] : OK(c, k, Zero)}
MissSet(c, G) == IF c.kind = "pwl" /\ c.imputes THEN {g \in G : MissOK(c, g, Zero)} ELSE {Zero}
Rep(n, S) == [u \in 1..n |-> S]
MidSet(c, G) == IF c.kind = "lattice" THEN {k \in [1..L!NumV(c) -> G] : OK(c, k, Zero)}
                ELSE {k \in [1..Len(c.mono) -> G] : LinearOKExact(c, k)}
LinSet(c, G) == {k \in [1..Len(c.mono) -> G] : LinearOKExact(c, k)}
\* the weight space of an instance, chosen in two steps (PickCal, PickRest) so that TLC's workers share the work
CalSpace(I) ==
  LET m == I.m  nf == NF(m) IN
  {[cal |-> a, miss |-> b] :
     a \in SeqProd([f \in 1..nf |-> SeqProd(Rep(m.cals[f].units, CalSet(m.cals[f], I.calG[f])))]),
     b \in SeqProd([f \in 1..nf |-> SeqProd(Rep(m.cals[f].units, MissSet(m.cals[f], I.calG[f])))])}
RestSpace(I, wc) ==
  LET m == I.m  nm == Len(m.mids) IN
  {[cal |-> wc.cal, miss |-> wc.miss, mid |-> c, midb |-> d, comb |-> e, combb |-> g, oc |-> h] :
     c \in SeqProd([i \in 1..nm |-> MidSet(m.mids[i], I.midG[i])]),
     d \in SeqProd([i \in 1..nm |-> IF m.mids[i].kind = "linear" /\ m.mids[i].useBias THEN I.biasG ELSE {Zero}]),
     e \in (IF m.comb.kind = "lin" THEN LinSet(m.comb, I.combG) ELSE {<<>>}),
     g \in (IF m.comb.kind = "lin" /\ m.comb.useBias THEN I.biasG ELSE {Zero}),
     h \in (IF m.oc.on THEN CalSet(m.oc, I.ocG) ELSE {<<>>})}
Points(I) == SeqProd(I.xs)
None == [none |-> TRUE]

Init == inst \in Instances /\ Wc = None /\ W = None
PickCal == Wc = None /\ Wc' \in CalSpace(inst) /\ UNCHANGED <<inst, W>>
PickRest == Wc # None /\ W = None /\ W' \in RestSpace(inst, Wc) /\ UNCHANGED <<inst, Wc>>
Next == PickCal \/ PickRest
Spec == Init /\ [][Next]_vars

\* C06 tolerates numerically zero weights in a normalised linear layer; the composition needs unit norm (with zero
\* weights a "weighted average" is the constant 0): AllowZeroNorm = TRUE is the design-level form of the known finding
L1One(c, k) == c.norm = 1 => PO!L1(k) = One
NormsOK == AllowZeroNorm \/ (/\ \A i \in 1..Len(inst.m.mids) : inst.m.mids[i].kind = "linear" => L1One(inst.m.mids[i], W.mid[i])
                             /\ (inst.m.comb.kind = "lin" => L1One(inst.m.comb, W.comb)))
Premise == (RequireSufficient => Sufficient(inst.m)) /\ LayersOK(inst.m, W, Zero) /\ NormsOK
Out(p) == ModelFn(inst.m, W, p)
\* every output, for every point of the grid (in range, out of range, missing), is within the configured bounds
InvBounded == (W # None /\ Premise) => \A p \in Points(inst) : BoundedOut(inst.m, Out(p), Zero)
\* for every pair of points of which the second is "above" the first in one constrained feature (pwl: larger value
\* for increasing, smaller for decreasing; categorical: a configured pair) the output does not decrease
InvMonotone == (W # None /\ Premise) =>
                 LET P == Points(inst)
                     outs == TLCEval([p \in P |-> Out(p)])
                 IN \A p, q \in P : \A f \in 1..NF(inst.m) : Above(inst.m, f, p, q) => RLeq(outs[p], outs[q])
\* the enumerated weights really satisfy every layer contract (the space is not empty by accident)
InvTyped == W # None => LayersOK(inst.m, W, Zero)
=============================================================================
