----------------------------- MODULE LinearLayer -----------------------------
(* C20: tfl.layers.Linear computes  bias_u + sum_i kernel[i,u] * clip(x_i, input_min_i, input_max_i) *)
(* (no clipping where no bound is given, no bias when use_bias is off), and what follows from *)
(* it for weights that satisfy the layer's constraints (C06 contract).                        *)
(* cfg = PartialOrderOps linear record + [hasLo, lo, hasHi, hi (seqs), useBias]               *)
EXTENDS PartialOrderOps

ClipX(c, i, v) == LET a == IF c.hasLo[i] THEN RMax(v, c.lo[i]) ELSE v
                  IN IF c.hasHi[i] THEN RMin(a, c.hi[i]) ELSE a
\* the layer clips only if at least one bound is given at all (otherwise clip_value_* is None)
AnyBound(c) == \E i \in 1..Len(c.mono) : c.hasLo[i] \/ c.hasHi[i]
LinearFn(c, k, b, x) ==
  RAdd(IF c.useBias THEN b ELSE Zero,
       RSumSeq([i \in 1..Len(k) |-> RMul(k[i], IF AnyBound(c) THEN ClipX(c, i, x[i]) ELSE x[i])]))

CONSTANTS CfgSpace, KDom, XGrid
VARIABLES cfg, kern, bias, x
vars == <<cfg, kern, bias, x>>
N == Len(cfg.mono)
Init == /\ cfg \in CfgSpace
        /\ kern \in {k \in [1..Len(cfg.mono) -> {R(a) : a \in KDom}] :
                       SignsOK(cfg, k) /\ MDomOK(cfg, k, Zero) /\ RDomOK(cfg, k, Zero)
                       /\ (cfg.norm = 1 => L1(k) = One \/ L1(k) = Zero)}
        /\ bias \in {R(-1), R(2)}
        /\ x \in [1..Len(cfg.mono) -> XGrid]
Out == LinearFn(cfg, kern, bias, x)
MoveUp(i) == /\ \E v \in XGrid : RLt(x[i], v) /\ x' = [x EXCEPT ![i] = v]
             /\ UNCHANGED <<cfg, kern, bias>>
Next == \E i \in 1..N : MoveUp(i)
Spec == Init /\ [][Next]_vars

\* monotone in every constrained input, for every pair of points
OutAt(xx) == LinearFn(cfg, kern, bias, xx)
Moved(i) == RLt(x[i], x'[i]) /\ \A j \in 1..N : j # i => x'[j] = x[j]
MonoStep == [][\A i \in 1..N : (Moved(i) /\ cfg.mono[i] = 1) => RLeq(OutAt(x), OutAt(x'))]_vars
AntiStep == [][\A i \in 1..N : (Moved(i) /\ cfg.mono[i] = -1) => RLeq(OutAt(x'), OutAt(x))]_vars
Inside(i, v) == (cfg.hasLo[i] => RLeq(cfg.lo[i], v)) /\ (cfg.hasHi[i] => RLeq(v, cfg.hi[i]))
Eff(i, d) == RSub(LinearFn(cfg, kern, bias, [x EXCEPT ![i] = RAdd(x[i], d)]), Out)
\* monotonic dominance: per unit step (both steps inside the bounds)
InvMDom == \A n \in 1..Len(cfg.mdom) :
             LET d == cfg.mdom[n][1]  wk == cfg.mdom[n][2] IN
             (Inside(d, x[d]) /\ Inside(d, RAdd(x[d], One)) /\ Inside(wk, x[wk]) /\ Inside(wk, RAdd(x[wk], One)))
               => RLeq(Eff(wk, One), Eff(d, One))
\* range dominance: across the full input ranges
Span(i) == RAbs(RSub(LinearFn(cfg, kern, bias, [x EXCEPT ![i] = cfg.hi[i]]),
                     LinearFn(cfg, kern, bias, [x EXCEPT ![i] = cfg.lo[i]])))
InvRDom == \A n \in 1..Len(cfg.rdom) : RLeq(Span(cfg.rdom[n][2]), Span(cfg.rdom[n][1]))
\* L1-normalised all-increasing layer without bias: a weighted average of the (clipped) inputs
Clipped(i) == IF AnyBound(cfg) THEN ClipX(cfg, i, x[i]) ELSE x[i]
InvAverage == (cfg.norm = 1 /\ ~cfg.useBias /\ (\A i \in 1..N : cfg.mono[i] = 1) /\ L1(kern) = One) =>
                /\ RLeq(RMinSeq([i \in 1..N |-> Clipped(i)]), Out)
                /\ RLeq(Out, RMaxSeq([i \in 1..N |-> Clipped(i)]))
=============================================================================
