----------------------------- MODULE RtlStructure -----------------------------
(* State machine of RTL._get_rtl_structure: Shuffle1 (any permutation), tile + truncate,          *)
(* Shuffle2 (any permutation), split into lattices, swap passes until nothing changes, sort.       *)
EXTENDS RtlOps
CONSTANTS Inputs, NumLattices, Rank, AvoidIntragroup
VARIABLES pc, cur, lats, passes
vars == <<pc, cur, lats, passes>>
Total == NumLattices * Rank
PermsOf(s) == {[k \in 1..Len(s) |-> s[p[k]]] : p \in {q \in [1..Len(s) -> 1..Len(s)] : \A a, b \in 1..Len(s) : a # b => q[a] # q[b]}}
Init == pc = "shuffle1" /\ cur = Inputs /\ lats = <<>> /\ passes = 0
Shuffle1 == pc = "shuffle1" /\ cur' \in PermsOf(cur) /\ pc' = "tile" /\ UNCHANGED <<lats, passes>>
Tile == pc = "tile" /\ cur' = TileTruncate(cur, Total) /\ pc' = "shuffle2" /\ UNCHANGED <<lats, passes>>
Shuffle2 == pc = "shuffle2" /\ cur' \in PermsOf(cur) /\ pc' = "split" /\ UNCHANGED <<lats, passes>>
SplitStep == pc = "split" /\ lats' = Split(cur, NumLattices, Rank) /\ pc' = "swap" /\ UNCHANGED <<cur, passes>>
Swap == /\ pc = "swap"
        /\ IF AvoidIntragroup
           THEN LET r == SwapPass(lats, Rank) IN lats' = r[1] /\ pc' = (IF r[2] THEN "swap" ELSE "sort") /\ passes' = passes + 1
           ELSE lats' = lats /\ pc' = "sort" /\ passes' = passes
        /\ UNCHANGED cur
Sort == pc = "sort" /\ lats' = [k \in 1..Len(lats) |-> SortByMono(lats[k])] /\ pc' = "done" /\ UNCHANGED <<cur, passes>>
Done == pc = "done" /\ UNCHANGED vars
Next == Shuffle1 \/ Tile \/ Shuffle2 \/ SplitStep \/ Swap \/ Sort \/ Done
Spec == Init /\ [][Next]_vars
InvStructure == pc = "done" => StructureOK(Inputs, lats, Rank)
\* every 'increasing' input sits on a position whose lattice monotonicity is 1, and a lattice is labelled
\* increasing (max of its monotonicities) exactly when it has a monotone input
InvMonotoneSlots == pc = "done" => \A k \in 1..Len(lats) : \A p \in 1..Rank : Monos(lats[k])[p] = lats[k][p][1]
\* the swap loop terminates well inside the code's cap
InvSwapTerminates == passes <= 20
\* swaps never increase the number of same-group pairs inside lattices
SameGroupPairs(ls) == Cardinality({t \in (1..Len(ls)) \X (1..Rank) \X (1..Rank) : t[2] < t[3] /\ ls[t[1]][t[2]][2] = ls[t[1]][t[3]][2]})
SwapImproves == [][pc = "swap" => SameGroupPairs(lats') <= SameGroupPairs(lats)]_vars
=============================================================================
