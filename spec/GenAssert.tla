------------------------------ MODULE GenAssert ------------------------------
EXTENDS MC_AssertOracle
ASSUME ndJsonSerialize(IOEnv.CASES_OUT, SetToSeq({BaseFile(c) : c \in AllSpace}))
=============================================================================
