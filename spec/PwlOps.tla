---------------------------- MODULE PwlOps -------------------------------
(* tfl.layers.PWLCalibration weight constraint                                                 *)
(*   = pwl_calibration_lib.project_all_constraints, one action per step the code takes:        *)
(*     Dykstra groups  B (bounds)  M (monotonicity)  C0 / C1 (convexity pair groups)           *)
(*     finalize steps  FM (monotonicity)  FC (left-to-right convexity)  FS (squeeze) / FB      *)
(*   A kernel is the sequence <<bias, h_1, .., h_NH>> of exact rationals (one unit; units are  *)
(*   pointwise lifts, see Independence).  The configuration is state chosen in Init.           *)
(*                                                                                             *)
(* Contracts (property C04) are the operators *OK below; they take a tolerance so that the     *)
(* same text is evaluated exactly on the model (tol = 0) and on fixed-point values recorded    *)
(* from the real code (TracePwl).                                                              *)
EXTENDS Integers, Sequences, FiniteSets, Rat, TLC

----------------------------------------------------------------------------
\* configuration: [mono, conv \in -1..1, minT, maxT \in {"N","B","C"}, omin, omax \in Rat,
\*                 len \in Seq(Rat) (NH entries), iters \in Nat]
NHof(c) == Len(c.len)
HasBounds(c) == c.minT # "N" \/ c.maxT # "N"
ValidCfg(c) ==
  /\ (c.minT # "N" /\ c.maxT # "N") => RLeq(c.omin, c.omax)
  /\ (c.minT = "C" \/ c.maxT = "C") => c.mono # 0       \* otherwise the projection raises (C16)
  /\ \A i \in 1..NHof(c) : RLt(Zero, c.len[i])

Groups(c) ==
  (IF HasBounds(c) THEN <<"B">> ELSE <<>>) \o
  (IF c.mono # 0 THEN <<"M">> ELSE <<>>) \o
  (IF c.conv # 0 /\ NHof(c) >= 2 THEN <<"C0">> ELSE <<>>) \o
  (IF c.conv # 0 /\ NHof(c) >= 3 THEN <<"C1">> ELSE <<>>)

RECURSIVE Repeat(_, _)
Repeat(s, n) == IF n = 0 THEN <<>> ELSE s \o Repeat(s, n - 1)

FinSteps(c) ==
  (IF c.mono # 0 THEN <<"FM">> ELSE <<>>) \o
  (IF c.conv # 0 THEN <<"FC">> ELSE <<>>) \o
  (IF HasBounds(c) THEN (IF c.mono # 0 /\ c.conv # 0 THEN <<"FS">> ELSE <<"FB">>) ELSE <<>>)

\* The code runs the loop body once to count the projections; with <= 1 projection that single
\* result is returned (no loop, no finalize).
Schedule(c) == IF Len(Groups(c)) <= 1 THEN Groups(c)
               ELSE Repeat(Groups(c), c.iters) \o FinSteps(c)

----------------------------------------------------------------------------
\* arithmetic on kernels
N(x) == Len(x)
Neg(x) == [i \in 1..N(x) |-> RNeg(x[i])]
Minus(x, y) == [i \in 1..N(x) |-> RSub(x[i], y[i])]
ZeroSeq(n) == [i \in 1..n |-> Zero]
SumH(x) == RSumSeq(SubSeq(x, 2, N(x)))
RECURSIVE CumSum(_, _)
CumSum(x, i) == IF i = 1 THEN x[1] ELSE RAdd(CumSum(x, i - 1), x[i])
Outputs(x) == [i \in 1..N(x) |-> CumSum(x, i)]          \* keypoint outputs

\* _project_bounds_considering_monotonicity, increasing form
BoundsInc(x, minT, maxT, omin, omax) ==
  LET nh == R(N(x) - 1)
      b == x[1]
      sh == SumH(x)
      room(bb) == RSub(omax, RAdd(bb, sh))
      squeeze(d) == IF maxT # "C" THEN RMin(d, Zero) ELSE d
  IN IF maxT # "N" THEN
       LET nb == IF minT = "C" THEN omin
                 ELSE IF minT = "B" THEN RMax(RAdd(b, squeeze(RDiv(room(b), RAdd(nh, One)))), omin)
                 ELSE RAdd(b, squeeze(RDiv(room(b), RAdd(nh, One))))
           hd == IF minT = "N" THEN squeeze(RDiv(room(b), RAdd(nh, One)))
                 ELSE squeeze(RDiv(room(nb), nh))
       IN [i \in 1..N(x) |-> IF i = 1 THEN nb ELSE RAdd(x[i], hd)]
     ELSE [i \in 1..N(x) |-> IF i # 1 THEN x[i]
                             ELSE IF minT = "C" THEN omin
                             ELSE IF minT = "B" THEN RMax(b, omin) ELSE b]

\* decreasing functions: multiply by -1 and swap min / max
BoundsMono(c, x) ==
  IF c.mono = 1 THEN BoundsInc(x, c.minT, c.maxT, c.omin, c.omax)
  ELSE Neg(BoundsInc(Neg(x), c.maxT, c.minT, RNeg(c.omax), RNeg(c.omin)))

\* _approximately_project_bounds_only: clip the cumulative sums
BoundsOnly(x, minT, maxT, omin, omax) ==
  LET s == Outputs(x)
      s1 == [i \in 1..N(x) |-> IF minT = "B" THEN RMax(s[i], omin) ELSE s[i]]
      s2 == [i \in 1..N(x) |-> IF maxT = "B" THEN RMin(s1[i], omax) ELSE s1[i]]
  IN IF minT = "N" /\ maxT = "N" THEN x
     ELSE [i \in 1..N(x) |-> IF i = 1 THEN s2[1] ELSE RSub(s2[i], s2[i - 1])]

ProjMono(x, mono) ==
  [i \in 1..N(x) |-> IF i = 1 \/ mono = 0 THEN x[i]
                     ELSE IF mono = 1 THEN RMax(x[i], Zero) ELSE RMin(x[i], Zero)]

\* _project_convexity: heights h_j = x[j+1]; group g pairs heights (g+1,g+2), (g+3,g+4), ...
ProjConv(x, len, conv, g) ==
  LET nh == N(x) - 1
      h(j) == x[j + 1]
      IsFirst(j) == j > g /\ (j - g) % 2 = 1 /\ j + 1 <= nh
      IsSecond(j) == j > g + 1 /\ (j - g) % 2 = 0
      base(j) == RDiv(RAdd(h(j), h(j + 1)), RAdd(len[j], len[j + 1]))   \* j = first of the pair
      nh0(j) == RMul(len[j], base(j))
      nh1(j) == RMul(len[j], base(j - 1))
  IN [i \in 1..N(x) |->
        IF i = 1 \/ conv = 0 \/ nh = 1 THEN x[i]
        ELSE LET j == i - 1 IN
             IF IsFirst(j) THEN (IF conv = 1 THEN RMin(h(j), nh0(j)) ELSE RMax(h(j), nh0(j)))
             ELSE IF IsSecond(j) THEN (IF conv = 1 THEN RMax(h(j), nh1(j)) ELSE RMin(h(j), nh1(j)))
             ELSE x[i]]

\* _approximately_project_convexity: left to right, align slope with the previous one
RECURSIVE FinConvAt(_, _, _, _)
FinConvAt(x, len, conv, j) ==       \* new height j (1-based), uses the new height j-1
  IF j = 1 THEN x[2]
  ELSE LET prev == FinConvAt(x, len, conv, j - 1)
           temp == RMul(prev, RDiv(len[j], len[j - 1]))
       IN IF conv = 1 THEN RMax(x[j + 1], temp) ELSE RMin(x[j + 1], temp)
FinConv(x, len, conv) ==
  [i \in 1..N(x) |-> IF i = 1 \/ conv = 0 THEN x[i] ELSE FinConvAt(x, len, conv, i - 1)]

\* _squeeze_by_scaling, increasing form (note the code's delta > 0.001 guard)
SqueezeInc(x, maxT, omax) ==
  IF maxT = "N" THEN x
  ELSE LET delta == RSub(omax, x[1])
           sf == IF RLt(<<1, 1000>>, delta) THEN RDiv(SumH(x), delta) ELSE One
           f == RMax(sf, One)
       IN [i \in 1..N(x) |-> IF i = 1 THEN x[1] ELSE RDiv(x[i], f)]
Squeeze(c, x) ==
  IF c.mono = 1 THEN SqueezeInc(x, c.maxT, c.omax)
  ELSE IF c.minT = "N" THEN x
  ELSE Neg(SqueezeInc(Neg(x), c.minT, RNeg(c.omin)))

SoftT(t) == IF t = "C" THEN "B" ELSE t

\* one step of the schedule applied to x (Dykstra roll-back handled by the action)
StepOp(c, s, x) ==
  CASE s = "B"  -> IF c.mono # 0 THEN BoundsMono(c, x)
                   ELSE BoundsOnly(x, c.minT, c.maxT, c.omin, c.omax)
    [] s = "M"  -> ProjMono(x, c.mono)
    [] s = "C0" -> ProjConv(x, c.len, c.conv, 0)
    [] s = "C1" -> ProjConv(x, c.len, c.conv, 1)
    [] s = "FM" -> ProjMono(x, c.mono)
    [] s = "FC" -> FinConv(x, c.len, c.conv)
    [] s = "FS" -> Squeeze(c, x)
    [] s = "FB" -> BoundsOnly(x, SoftT(c.minT), SoftT(c.maxT), c.omin, c.omax)

IsDykstra(s) == s \in {"B", "M", "C0", "C1"}
GroupNames == {"B", "M", "C0", "C1"}

\* the whole constraint as a function (used by the trace spec for conformance)
RECURSIVE RunFrom(_, _, _, _)
RunFrom(c, x, l, j) ==
  LET sch == Schedule(c) IN
  IF j > Len(sch) THEN x
  ELSE LET s == sch[j] IN
       IF IsDykstra(s) /\ Len(Groups(c)) > 1
       THEN LET r == Minus(x, l[s])
                p == StepOp(c, s, r)
            IN RunFrom(c, p, [l EXCEPT ![s] = Minus(p, r)], j + 1)
       ELSE RunFrom(c, StepOp(c, s, x), l, j + 1)
Project(c, x) == RunFrom(c, x, [g \in GroupNames |-> ZeroSeq(N(x))], 1)

----------------------------------------------------------------------------
\* contracts of C04 (tol: tolerance as a rational; 0 on the model)
Leq(a, b, tol) == RLeq(a, RAdd(b, tol))
MonoOK(c, x) ==          \* exact, as the statement says
  \A i \in 2..N(x) : (c.mono = 1 => x[i][1] >= 0) /\ (c.mono = -1 => x[i][1] <= 0)
BoundsOK(c, x, tol) ==
  \A i \in 1..N(x) : /\ (c.minT # "N" => Leq(c.omin, CumSum(x, i), tol))
                     /\ (c.maxT # "N" => Leq(CumSum(x, i), c.omax, tol))
\* slopes h_j / len_j ordered; cross-multiplied so that no division is needed
ConvexOK(c, x, tol) ==
  \A j \in 1..(N(x) - 2) :
     LET a == RMul(x[j + 1], c.len[j + 1])      \* h_j * len_{j+1}
         b == RMul(x[j + 2], c.len[j])          \* h_{j+1} * len_j
     IN (c.conv = 1 => Leq(a, b, tol)) /\ (c.conv = -1 => Leq(b, a, tol))
ConvexRequired(c) == c.conv # 0 /\ ~(HasBounds(c) /\ c.mono = 0)     \* tolerated relaxation 1
\* clamped end: the minimum is the first output of an increasing function, the last of a decreasing one
MinEnd(c, x) == IF c.mono = 1 THEN x[1] ELSE CumSum(x, N(x))
MaxEnd(c, x) == IF c.mono = 1 THEN CumSum(x, N(x)) ELSE x[1]
ClampOK(c, x, tol) ==
  /\ (c.minT = "C" => RNear(MinEnd(c, x), c.omin, tol))
  /\ (c.maxT = "C" => RNear(MaxEnd(c, x), c.omax, tol))
ClampExactRequired(c) == c.conv = 0                                   \* tolerated relaxation 2
Feasible(c, x) == /\ MonoOK(c, x) /\ BoundsOK(c, x, Zero)
                  /\ (c.conv # 0 => ConvexOK(c, x, Zero))
                  /\ ClampOK(c, x, Zero)

=============================================================================
