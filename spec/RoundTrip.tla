------------------------------- MODULE RoundTrip -------------------------------
(* C11: config and weight round trips.  The protocol                                                  *)
(*    Create(cls, args) -> GetConfig -> FromConfig -> GetConfig2 -> SetWeights -> Eval                  *)
(* and its contract: rebuilding from get_config() succeeds, the rebuilt object's config is equal, it has *)
(* the same variables and - given the original weights - computes identical outputs.                     *)
(* The machine is abstract (an object IS its constructor arguments); its purpose is to enumerate, for    *)
(* every class of the schema, every assignment with at most two non-default arguments (all singles and   *)
(* all pairs - pairwise coverage), which are then executed on the real classes and judged by             *)
(* TraceRoundTrip.  Argument values are Python literals, written as strings.                             *)
EXTENDS Integers, Sequences, FiniteSets, TLC
CONSTANT Schema        \* [class name -> [argument name -> set of value strings]]
VARIABLES cls, args, phase, cfg1, cfg2
vars == <<cls, args, phase, cfg1, cfg2>>
Classes == DOMAIN Schema
ArgNames(c) == DOMAIN Schema[c]
ArgChoices(c) == UNION {{<<a, v>> : v \in Schema[c][a]} : a \in ArgNames(c)}
Assignments(c) == {S \in SUBSET ArgChoices(c) : Cardinality(S) <= 2 /\ \A p, q \in S : p # q => p[1] # q[1]}
Init == cls \in Classes /\ args \in Assignments(cls) /\ phase = "created" /\ cfg1 = {} /\ cfg2 = {}
GetConfig == phase = "created" /\ cfg1' = args /\ phase' = "config" /\ UNCHANGED <<cls, args, cfg2>>
FromConfig == phase = "config" /\ phase' = "rebuilt" /\ UNCHANGED <<cls, args, cfg1, cfg2>>
GetConfig2 == phase = "rebuilt" /\ cfg2' = cfg1 /\ phase' = "done" /\ UNCHANGED <<cls, args, cfg1>>
\* SaveModel / LoadModel: the object inside a Keras model written to disk (.keras, .h5) and read back; abstractly the
\* file holds the config, so the reloaded object is the same assignment again
SaveLoad == phase = "done" /\ phase' = "reloaded" /\ cfg2' = cfg1 /\ UNCHANGED <<cls, args, cfg1>>
Next == GetConfig \/ FromConfig \/ GetConfig2 \/ SaveLoad \/ (phase = "reloaded" /\ UNCHANGED vars)
InvRoundTrip == phase \in {"done", "reloaded"} => cfg2 = cfg1
=============================================================================
