--------------------------- MODULE MC_PartialOrder ---------------------------
EXTENDS PartialOrderProject, Json, IOUtils, SequencesExt

AllPairs(n) == {<<i, j>> : i, j \in 1..n} \ {<<i, i>> : i \in 1..n}
\* every acyclic edge set on n nodes, as a sequence (TLC's set order), and the same reversed
Dags(n) == {s \in {SetToSeq(E) : E \in SUBSET AllPairs(n)} : Acyclic(s)}
DagsBothOrders(n) == Dags(n) \cup {Reverse(s) : s \in Dags(n)}
Cat(nb, ps, b, hi) == [kind |-> "cat", nb |-> nb, pairs |-> ps, hasMin |-> b[1], omin |-> Zero,
                       hasMax |-> b[2], omax |-> R(hi)]
Lin(m, md, rd, rg, nm) == [kind |-> "linear", mono |-> m, mdom |-> md, rdom |-> rd,
                           range |-> [i \in 1..Len(rg) |-> R(rg[i])], norm |-> nm]
NoB == <<FALSE, FALSE>>
BothB == <<TRUE, TRUE>>
\* selected 4-node shapes: chain, diamond, forest, shared parent, shared child
Shapes4 == { << <<1, 2>>, <<2, 3>>, <<3, 4>> >>, << <<1, 2>>, <<1, 3>>, <<2, 4>>, <<3, 4>> >>,
             << <<1, 2>>, <<3, 4>> >>, << <<1, 2>>, <<1, 3>>, <<1, 4>> >>, << <<1, 4>>, <<2, 4>>, <<3, 4>> >>,
             << <<4, 3>>, <<3, 1>>, <<4, 2>> >>, << <<2, 1>>, <<3, 1>>, <<3, 2>>, <<4, 1>> >> }
\* ---- quick
SpaceQ ==
  {Cat(3, ps, b, 1) : ps \in DagsBothOrders(3), b \in {NoB, BothB}}
  \cup {Cat(4, ps, NoB, 1) : ps \in Shapes4}
  \cup {Lin(m, md, <<>>, <<1, 1, 1>>, nm) :
          m \in {<<1, 1, 1>>, <<1, 1, 0>>, <<1, -1, 1>>}, md \in Dags(3), nm \in {0, 1}}
  \cup {Lin(m, <<>>, rd, rg, nm) :
          m \in {<<1, 1, 1>>, <<-1, -1, -1>>, <<1, 1, -1>>, <<-1, -1, 0>>}, rd \in Dags(3),
          rg \in {<<1, 2, 3>>, <<2, 1, 1>>}, nm \in {0, 1}}
DomQ == -1..2
\* ---- thorough: every DAG on 4 nodes
SpaceT1 == {Cat(4, ps, b, 1) : ps \in Dags(4), b \in {NoB, BothB}}
DomT1 == -1..1
SpaceT2 ==
  {Lin(m, md, <<>>, <<1, 1, 1, 1>>, nm) :
     m \in {<<1, 1, 1, 1>>, <<1, 1, 1, 0>>, <<1, 1, -1, 1>>}, md \in Dags(4), nm \in {0, 1}}
  \cup {Lin(m, <<>>, rd, rg, nm) :
     m \in {<<1, 1, 1, 1>>, <<-1, -1, -1, -1>>, <<1, 1, -1, -1>>}, rd \in Dags(4),
     rg \in {<<1, 2, 3, 1>>, <<2, 1, 1, 3>>}, nm \in {0, 1}}
  \cup {Lin(<<1, 1, -1, -1>>, << <<1, 2>> >>, << <<3, 4>> >>, rg, nm) : rg \in {<<1, 1, 1, 2>>, <<1, 1, 3, 1>>}, nm \in {0, 1}}
DomT2 == -1..1
SpaceT3 == SpaceQ
DomT3 == -2..2
CaseFile(space, dom) == [cfgs |-> SetToSeq({c \in space : ValidCfg(c)}), vals |-> SetToSeq(dom)]
=============================================================================
