----------------------------- MODULE EnsembleCover -----------------------------
(* premade_lib.set_random_lattice_ensemble and the all-pairs cover used for Crystals prefitting    *)
(* (_set_all_pairs_cover_lattices / _add_pair_to_ensemble), with every np.random choice as          *)
(* nondeterminism.  Features are 1..NF; a lattice is a sequence (random) or a set (cover).           *)
EXTENDS Integers, Sequences, FiniteSets, TLC
CONSTANTS NF, NumLattices, Rank, Mode        \* Mode \in {"random", "cover"}
VARIABLES pc, lats, todo, cover
vars == <<pc, lats, todo, cover>>
Features == 1..NF
AllPairs == {p \in Features \X Features : p[1] < p[2]}
InSeq(x, s) == \E k \in 1..Len(s) : s[k] = x
Init == IF Mode = "random"
        THEN pc = "assign" /\ lats = [k \in 1..NumLattices |-> <<>>] /\ todo = 1 /\ cover = <<>>
        ELSE pc = "cover" /\ lats = <<>> /\ todo = 0 /\ cover = [left |-> AllPairs, lats |-> <<>>]
\* ---- random ensemble: each feature once into any non-full lattice, then fill without repetition
Assign == /\ pc = "assign" /\ todo <= NF
          /\ \E k \in {k \in 1..NumLattices : Len(lats[k]) < Rank} :
               lats' = [lats EXCEPT ![k] = Append(lats[k], todo)]
          /\ todo' = todo + 1 /\ pc' = (IF todo = NF THEN "fill" ELSE "assign") /\ UNCHANGED cover
Fill == /\ pc = "fill"
        /\ \E k \in 1..NumLattices :
             /\ Len(lats[k]) < Rank /\ \A j \in 1..(k - 1) : Len(lats[j]) = Rank
             /\ \E f \in {f \in Features : ~InSeq(f, lats[k])} : lats' = [lats EXCEPT ![k] = Append(lats[k], f)]
        /\ UNCHANGED <<pc, todo, cover>>
FillDone == pc = "fill" /\ (\A k \in 1..NumLattices : Len(lats[k]) = Rank) /\ pc' = "done" /\ UNCHANGED <<lats, todo, cover>>
\* ---- all-pairs cover: pairs in any order; _add_pair_to_ensemble
FirstWhere(ls, P(_)) == LET hit == {k \in 1..Len(ls) : P(ls[k])} IN IF hit = {} THEN 0 ELSE CHOOSE k \in hit : \A j \in hit : k <= j
AddPair(ls, i, j) ==
  IF \E k \in 1..Len(ls) : i \in ls[k] /\ j \in ls[k] THEN ls
  ELSE LET a == FirstWhere(ls, LAMBDA s : Cardinality(s) < Rank /\ (i \in s \/ j \in s)) IN
       IF a # 0 THEN [ls EXCEPT ![a] = ls[a] \cup {i, j}]      \* adds the missing one of the two
       ELSE LET b == FirstWhere(ls, LAMBDA s : Cardinality(s) < Rank - 1) IN
            IF b # 0 THEN [ls EXCEPT ![b] = ls[b] \cup {i, j}] ELSE Append(ls, {i, j})
Cover == /\ pc = "cover" /\ cover.left # {}
         /\ \E p \in cover.left : cover' = [left |-> cover.left \ {p}, lats |-> AddPair(cover.lats, p[1], p[2])]
         /\ UNCHANGED <<pc, lats, todo>>
CoverDone == pc = "cover" /\ cover.left = {} /\ pc' = "done" /\ UNCHANGED <<lats, todo, cover>>
Done == pc = "done" /\ UNCHANGED vars
Next == Assign \/ Fill \/ FillDone \/ Cover \/ CoverDone \/ Done
\* the code's assumption: enough slots for every feature
ASSUME Mode = "cover" \/ NumLattices * Rank >= NF
InvRandom == (Mode = "random" /\ pc = "done") =>
  /\ \A k \in 1..NumLattices : Len(lats[k]) = Rank
  /\ \A f \in Features : \E k \in 1..NumLattices : InSeq(f, lats[k])
  /\ \A k \in 1..NumLattices : \A a, b \in 1..Rank : a # b => lats[k][a] # lats[k][b]
InvNoStuck == (Mode = "random" /\ pc = "assign") => \E k \in 1..NumLattices : Len(lats[k]) < Rank
InvFillPossible == (Mode = "random" /\ pc = "fill") =>
  \A k \in 1..NumLattices : Len(lats[k]) < Rank => \E f \in Features : ~InSeq(f, lats[k])
InvCover == (Mode = "cover" /\ pc = "done") =>
  /\ \A p \in AllPairs : \E k \in 1..Len(cover.lats) : p[1] \in cover.lats[k] /\ p[2] \in cover.lats[k]
  /\ \A k \in 1..Len(cover.lats) : Cardinality(cover.lats[k]) <= Rank /\ Cardinality(cover.lats[k]) >= 2
=============================================================================
