------------------------------ MODULE TraceAssert ------------------------------
(* code -> spec for C12: each event is one real layer.assert_constraints(eps) call in eager mode  *)
(*   [ev |-> "Assert", cfg, den, w (ints over den), eps ([n, d]), outcome |-> "pass" | "fail"]      *)
(* judged by the oracle of AssertOps.                                                              *)
EXTENDS AssertOps, TraceBase
VARIABLE l
tvars == <<l>>
Nm(p) == Norm(p[1], p[2])
Cfg(e) ==
  LET c == e.cfg IN
  IF c.kind = "linear" THEN [c EXCEPT !.range = [i \in 1..Len(c.range) |-> Nm(c.range[i])]]
  ELSE [c EXCEPT !.omin = Nm(c.omin), !.omax = Nm(c.omax)]
Clauses(e) ==
  IF e.ev = "Raised" THEN {"Raised"} ELSE
  LET c == Cfg(e)  x == FxSeq(e.w, e.den)  eps == Nm(e.eps)
  IN (IF MustFail(c, x, eps) /\ e.outcome = "pass" THEN {"MissedViolation"} ELSE {})
     \cup (IF MustPass(c, x, eps) /\ e.outcome = "fail" THEN {"FalseAlarm"} ELSE {})
TraceInit == l = 1
TraceNext == /\ l <= Len(Trace) /\ l' = l + 1 /\ Record(Trace[l].i, Clauses(Trace[l]))
TraceSpec == TraceInit /\ [][TraceNext]_tvars
ASSUME TLCSet(1, {})
=============================================================================
