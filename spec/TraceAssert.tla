------------------------------ MODULE TraceAssert ------------------------------
(* code -> spec for C12: each event is one real layer.assert_constraints(eps) call in eager mode  *)
(*   [ev |-> "Assert", cfg, den, w (ints over den), eps ([n, d]), outcome |-> "pass" | "fail"]      *)
(*   [ev |-> "AssertMulti", cfg, den, ws (one vector per unit), eps, outcome]    a multi-unit layer             *)
(* judged by the oracle of AssertOps.                                                              *)
EXTENDS AssertOps, TraceBase
VARIABLE l
tvars == <<l>>
Nm(p) == Norm(p[1], p[2])
Cfg(e) ==
  LET c == e.cfg IN
  IF c.kind = "linear" THEN [c EXCEPT !.range = [i \in 1..Len(c.range) |-> Nm(c.range[i])]]
  ELSE [c EXCEPT !.omin = Nm(c.omin), !.omax = Nm(c.omax)]
Clauses(e) ==
  IF e.ev = "Raised" THEN {"Raised"} ELSE
  LET c == Cfg(e)  x == FxSeq(e.w, e.den)  eps == Nm(e.eps)
  IN (IF MustFail(c, x, eps) /\ e.outcome = "pass" THEN {"MissedViolation"} ELSE {})
     \cup (IF MustPass(c, x, eps) /\ e.outcome = "fail" THEN {"FalseAlarm"} ELSE {})
\* several units in one layer: the call must fail when SOME unit must fail, and pass when EVERY unit must pass
MultiClauses(e) ==
  LET c == Cfg(e)  eps == Nm(e.eps)  xs == [u \in 1..Len(e.ws) |-> FxSeq(e.ws[u], e.den)]
  IN (IF (\E u \in 1..Len(xs) : MustFail(c, xs[u], eps)) /\ e.outcome = "pass" THEN {"MissedViolationInOneUnit"} ELSE {})
     \cup (IF (\A u \in 1..Len(xs) : MustPass(c, xs[u], eps)) /\ e.outcome = "fail" THEN {"FalseAlarm"} ELSE {})
TraceInit == l = 1
TraceNext == /\ l <= Len(Trace) /\ l' = l + 1
             /\ Record(Trace[l].i, IF Trace[l].ev = "AssertMulti" THEN MultiClauses(Trace[l]) ELSE Clauses(Trace[l]))
TraceSpec == TraceInit /\ [][TraceNext]_tvars
ASSUME TLCSet(1, {})
=============================================================================
