-------------------------------- MODULE Crystals --------------------------------
(* Model-checking wrapper: every small integer score table.                                          *)
EXTENDS CrystalsOps
CONSTANTS NF, NumLattices, Rank, ScoreDom
VARIABLES T, Lp, phase
vars == <<T, Lp, phase>>
C == [nf |-> NF, nl |-> NumLattices, rank |-> Rank]
FF == 1..NF
SymTables == {t \in [FF -> [FF -> ScoreDom]] : \A a, b \in FF : t[a][b] = t[b][a] /\ t[a][a] = 0}
Init == T \in SymTables /\ Lp \in [FF -> ScoreDom] /\ phase = "scores"
Next == UNCHANGED vars
\* the allocation is total (no 0/0) and hands out exactly num_lattices * lattice_rank uses
InvAllocTotal == Uses(C, T, Lp).ok
InvAllocSum == Uses(C, T, Lp).ok => SumUses(C, Uses(C, T, Lp).uses) = Total(C)
InvPlaced == (Uses(C, T, Lp).ok /\ SumUses(C, Uses(C, T, Lp).uses) = Total(C)) => EnsembleOK(C, Placed(C, T, Lp)[1])
\* the original code (before the fix: commit) ran into 0/0 when the importance still to be allocated was all
\* zero: InvOriginalTotal is expected to FAIL (self-test that the model sees the repaired defect)
InvOriginalTotal == UsesOf(C, T, Lp, FALSE).ok
=============================================================================
