-------------------------- MODULE TrainingHistory --------------------------
(* C03, design level (B): the life cycle of the constrained variables of a Keras model.            *)
(*   Build        the library initializers write every variable            (feasible: C10)         *)
(*   BeginStep    an optimizer writes ANY value into every trainable variable                      *)
(*   Constrain(v) Keras re-applies variable.constraint: v becomes feasible  (C01/C04/C06/C07);     *)
(*                the optimizer does this for every updated variable, in any order                 *)
(*   EndStep      apply_gradients returns                                                          *)
(*   Save / Restore   a snapshot of all values is taken / written back (get_weights, save_weights, *)
(*                model.save ... and their inverses)                                               *)
(*   Finalize     layer.finalize_constraints() on every layer                                      *)
(*   Crash        the process dies at ANY point, also in the middle of a step: the in-memory        *)
(*                model is lost; Recover = rebuild from the configuration, then Restore             *)
(* A variable's value is abstracted to a token (so Restore = "same values as at Save" is checkable) *)
(* and a feasibility flag.  The invariant: whenever no call is in progress and the model exists,    *)
(* every constrained variable is feasible - the premise of Compose's end-to-end theorem.           *)
(* Coupled == pairs <<v, w>> where the constraint of v reads the current value of w (KFL kernel     *)
(* reads sign(scale)): v is feasible only relative to the w it was constrained against.  A         *)
(* Constrain step keeps the token: what the partner reads of a value (its sign) is not changed by  *)
(* that value's own constraint (clip towards 0) - KflLayer.tla checks this coupling with exact      *)
(* values under every interleaving.                                                                  *)
EXTENDS Integers, Sequences, FiniteSets, TLC
CONSTANTS Vars, HasConstraint, Coupled, MaxSteps
VARIABLES feas, tok, against, pending, pc, saved, alive, fresh, steps, hist
vars == <<feas, tok, against, pending, pc, saved, alive, fresh, steps, hist>>

NoSnap == [none |-> TRUE]
Init == /\ feas = [v \in Vars |-> TRUE] /\ tok = [v \in Vars |-> 0]
        /\ against = [v \in Vars |-> 0]          \* token of the coupled variable seen by the last Constrain(v)
        /\ pending = {} /\ pc = "idle" /\ saved = NoSnap /\ alive = TRUE /\ fresh = 1 /\ steps = 0
        /\ hist = <<"Build">>
Partner(v) == {p[2] : p \in {p \in Coupled : p[1] = v}}
BeginStep == /\ alive /\ pc = "idle" /\ steps < MaxSteps
             /\ feas' = [v \in Vars |-> FALSE]
             /\ tok' = [v \in Vars |-> fresh] /\ fresh' = fresh + 1
             /\ pending' = {v \in Vars : HasConstraint[v]} /\ pc' = "step" /\ steps' = steps + 1
             /\ hist' = Append(hist, "Step")
             /\ UNCHANGED <<against, saved, alive>>
Constrain(v) == /\ alive /\ pc = "step" /\ v \in pending
                /\ feas' = [feas EXCEPT ![v] = TRUE]
                /\ against' = [against EXCEPT ![v] = IF Partner(v) = {} THEN 0 ELSE tok[CHOOSE w \in Partner(v) : TRUE]]
                /\ pending' = pending \ {v}
                /\ UNCHANGED <<tok, pc, saved, alive, fresh, steps, hist>>
EndStep == /\ alive /\ pc = "step" /\ pending = {} /\ pc' = "idle"
           /\ UNCHANGED <<feas, tok, against, pending, saved, alive, fresh, steps, hist>>
Save == /\ alive /\ pc = "idle" /\ saved' = [feas |-> feas, tok |-> tok, against |-> against]
        /\ hist' = Append(hist, "Save")
        /\ UNCHANGED <<feas, tok, against, pending, pc, alive, fresh, steps>>
Restore == /\ alive /\ pc = "idle" /\ saved # NoSnap
           /\ feas' = saved.feas /\ tok' = saved.tok /\ against' = saved.against
           /\ hist' = Append(hist, "Restore")
           /\ UNCHANGED <<pending, pc, saved, alive, fresh, steps>>
Finalize == /\ alive /\ pc = "idle" /\ hist' = Append(hist, "Finalize")
            /\ feas' = [v \in Vars |-> feas[v] \/ HasConstraint[v]]
            /\ against' = [v \in Vars |-> IF Partner(v) = {} THEN 0 ELSE tok[CHOOSE w \in Partner(v) : TRUE]]
            /\ UNCHANGED <<tok, pending, pc, saved, alive, fresh, steps>>
Crash == /\ alive /\ alive' = FALSE /\ pending' = {} /\ pc' = "idle"
         /\ hist' = Append(hist, "Crash")
         /\ UNCHANGED <<feas, tok, against, saved, fresh, steps>>
\* rebuild from the configuration (fresh initial values), then load the snapshot if there is one
Recover == /\ ~alive /\ alive' = TRUE
           /\ IF saved = NoSnap
              THEN feas' = [v \in Vars |-> TRUE] /\ tok' = [v \in Vars |-> 0] /\ against' = [v \in Vars |-> 0]
              ELSE feas' = saved.feas /\ tok' = saved.tok /\ against' = saved.against
           /\ hist' = Append(hist, "Recover")
           /\ UNCHANGED <<pending, pc, saved, fresh, steps>>
Next == BeginStep \/ (\E v \in Vars : Constrain(v)) \/ EndStep \/ Save \/ Restore \/ Finalize \/ Crash \/ Recover
Spec == Init /\ [][Next]_vars

\* a coupled variable is feasible only if it was constrained against the current value of its partner
Consistent(v) == \A w \in Partner(v) : against[v] = tok[w]
Quiescent == alive /\ pc = "idle"
InvFeasibleWhenQuiescent == Quiescent => \A v \in Vars : feas[v]
\* snapshots are only ever taken in quiescent states, so a restored model is feasible as well
InvSnapshotFeasible == saved # NoSnap => \A v \in Vars : saved.feas[v]
InvCoupledConsistent == Quiescent => \A v \in Vars : HasConstraint[v] => Consistent(v)
\* Restore really restores: right after it the tokens equal the snapshot's
RestoreExact == [][Restore => tok' = saved.tok]_vars
Bound == Len(hist) <= MaxSteps + 6
=============================================================================
