--------------------------- MODULE TraceGradients ---------------------------
(* code -> spec for C19.                                                                          *)
(*  ProdGrad   [t (ints, entries along the reduced axis), dy, g (returned gradient, ints)]  exact   *)
(*  Pair       [a, b (two recorded gradient arrays, fixed point), tolu, what]   layer gradient vs   *)
(*             autodiff of the mathematically identical plain expression                            *)
(*  LatGrad    [sizes, interp, clip, xden, x, gden, g (d out / d kernel, flat), tolu]               *)
(*  PwlGrad    [kp, cyclic, xden, x, gden, g]      d out / d kernel rows                            *)
(*  CatGrad    [nb, idx, hasDefault, default, gden, g]                                              *)
EXTENDS Integers, Sequences, TLC, TraceBase
L == INSTANCE LatticeInterp
P == INSTANCE CalibratorOps
R0 == INSTANCE Rat
VARIABLE l
tvars == <<l>>
RECURSIVE Prod(_)
Prod(s) == IF s = <<>> THEN 1 ELSE Head(s) * Prod(Tail(s))
TrueGrad(s, i, d) == d * Prod([j \in 1..Len(s) |-> IF j = i THEN 1 ELSE s[j]])
OneHot(n, j) == [i \in 1..n |-> IF i = j THEN <<1, 1>> ELSE <<0, 1>>]
Nm(p) == R0!Norm(p[1], p[2])
Clauses(e) ==
  CASE e.ev = "ProdGrad" ->
         IF \A i \in 1..Len(e.t) : e.g[i] = TrueGrad(e.t, i, e.dy) THEN {} ELSE {"ProductGradient"}
    [] e.ev = "Pair" ->
         IF \A i \in 1..Len(e.a) : e.a[i] - e.b[i] <= e.tolu /\ e.b[i] - e.a[i] <= e.tolu THEN {} ELSE {"Grad:" \o e.what}
    [] e.ev = "LatGrad" ->
         LET c == [sizes |-> e.sizes]
             x == [d \in 1..Len(e.x) |-> R0!Norm(e.x[d], e.xden)]
             nv == L!NumV(c)
             wt(n) == LET k == L!Unflat(c, OneHot(nv, n))
                      IN IF e.interp = "hypercube" THEN L!Hyper(c, k, x, e.clip) ELSE L!Simplex(c, k, x, e.clip)
         IN (IF \A n \in 1..nv : R0!FxNear(e.g[n], e.tolu, e.gden, wt(n)) THEN {} ELSE {"LatticeKernelGradient"})
            \cup (IF \A n \in 1..nv : e.g[n] >= -e.tolu THEN {} ELSE {"LatticeGradNonNegative"})
            \cup (IF LET RECURSIVE S(_) S(n) == IF n = 0 THEN 0 ELSE e.g[n] + S(n - 1)
                     IN S(nv) - e.gden <= 4 * e.tolu /\ e.gden - S(nv) <= 4 * e.tolu THEN {} ELSE {"LatticeGradSumsToOne"})
    [] e.ev = "PwlGrad" ->
         LET c == [kp |-> [i \in 1..Len(e.kp) |-> Nm(e.kp[i])], cyclic |-> e.cyclic]
             rows == Len(e.g)
         IN IF \A n \in 1..rows : R0!FxNear(e.g[n], e.tolu, e.gden, P!PwlEval(c, OneHot(rows, n), R0!Norm(e.x, e.xden)))
            THEN {} ELSE {"PwlKernelGradient"}
    [] e.ev = "CatGrad" ->
         IF \A n \in 1..e.nb : R0!FxNear(e.g[n], e.tolu, e.gden, P!CatEval(OneHot(e.nb, n), e.idx, e.hasDefault, e.default))
         THEN {} ELSE {"CategoricalKernelGradient"}
    [] e.ev = "Raised" -> {"Raised"}
    [] e.ev = "NonFinite" -> {"Finite"}
TraceInit == l = 1
TraceNext == /\ l <= Len(Trace) /\ l' = l + 1 /\ Record(Trace[l].i, Clauses(Trace[l]))
TraceSpec == TraceInit /\ [][TraceNext]_tvars
ASSUME TLCSet(1, {})
=============================================================================
