---------------------------- MODULE MC_LatticeEval ----------------------------
EXTENDS LatticeEval, Json, IOUtils, SequencesExt
Q4(lo, hi) == {Norm(n, 4) : n \in (4 * lo - 2)..(4 * hi + 2)}
Half(lo, hi) == {Norm(n, 2) : n \in (2 * lo - 1)..(2 * hi + 1)}
\* a full cell and more beyond the range on either side (clipping must bring these back to the boundary vertices)
Far(lo, hi) == {Norm(n, 2) : n \in {2 * lo - 3, 2 * lo - 2, 2 * hi + 3}}
KBin == {0, 1}
SizesQ == {<<2>>, <<3>>, <<2, 2>>, <<2, 3>>, <<3, 2>>}
GridQ == Half(0, 2) \cup {<<1, 4>>, <<3, 4>>, <<5, 4>>} \cup Far(0, 2)
SizesT1 == {<<4, 2>>, <<3, 3>>}
GridT1 == Half(0, 3) \cup Far(0, 3)
SizesT2 == {<<2, 2, 2>>, <<2, 3, 2>>}
\* (the half-cell overhang of Half(0, 2) on rank 3 made 2.2 M states / > 2 h; out-of-range points beyond -3/2 are in GridQ and GridT1)
GridT2 == {Norm(n, 2) : n \in 0..4} \cup {<<-3, 2>>}
CaseFile(sz, kd, xg) == [sizes |-> SetToSeq(sz), kvals |-> SetToSeq(kd), xgrid |-> SetToSeq(xg)]
Tier == IOEnv.VERIF_TIER
=============================================================================
