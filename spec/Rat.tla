-------------------------------- MODULE Rat --------------------------------
(* Exact rational arithmetic on pairs <<num, den>> (den > 0, gcd-normalised).                  *)
(* TLC integers are 32-bit and TLC raises on overflow, so sums and comparisons go through the  *)
(* lcm of the denominators rather than their product: numerators stay <= |value| * lcd.        *)
(* Values recorded from the real code enter as <<n, 2^e>> (fixed point) and use the same ops.  *)
EXTENDS Integers, Sequences

RECURSIVE GCD(_, _)
GCD(a, b) == IF b = 0 THEN a ELSE GCD(b, a % b)
Abs(x) == IF x < 0 THEN -x ELSE x
Norm(n, d) == LET g == GCD(Abs(n), Abs(d))
                  s == IF d < 0 THEN -1 ELSE 1
              IN  IF n = 0 THEN <<0, 1>> ELSE <<s * (n \div g), s * (d \div g)>>
R(n) == <<n, 1>>
Q(n, d) == Norm(n, d)
Zero == <<0, 1>>
One == <<1, 1>>
LCD(a, b) == (a[2] \div GCD(a[2], b[2])) * b[2]
OnL(a, l) == a[1] * (l \div a[2])            \* numerator of a over denominator l
RAdd(a, b) == LET l == LCD(a, b) IN Norm(OnL(a, l) + OnL(b, l), l)
RSub(a, b) == LET l == LCD(a, b) IN Norm(OnL(a, l) - OnL(b, l), l)
RNeg(a) == <<-a[1], a[2]>>
RMul(a, b) == LET g1 == GCD(Abs(a[1]), b[2])  g2 == GCD(Abs(b[1]), a[2])
                  h1 == IF g1 = 0 THEN 1 ELSE g1  h2 == IF g2 = 0 THEN 1 ELSE g2
              IN  Norm((a[1] \div h1) * (b[1] \div h2), (a[2] \div h2) * (b[2] \div h1))
RInv(a) == IF a[1] < 0 THEN <<-a[2], -a[1]>> ELSE <<a[2], a[1]>>     \* a # 0
RDiv(a, b) == RMul(a, RInv(b))
RLeq(a, b) == LET l == LCD(a, b) IN OnL(a, l) <= OnL(b, l)
RLt(a, b) == LET l == LCD(a, b) IN OnL(a, l) < OnL(b, l)
REq(a, b) == a[1] * b[2] = b[1] * a[2]
RMax(a, b) == IF RLeq(a, b) THEN b ELSE a
RMin(a, b) == IF RLeq(a, b) THEN a ELSE b
RAbs(a) == <<Abs(a[1]), a[2]>>
RSign(a) == IF a[1] > 0 THEN 1 ELSE IF a[1] < 0 THEN -1 ELSE 0
RClip(a, lo, hi) == RMin(RMax(a, lo), hi)
RHalf(a) == RMul(a, <<1, 2>>)
RFloor(a) == a[1] \div a[2]                   \* TLC's \div floors towards -infinity
\* |a - b| <= tol
RNear(a, b, tol) == RLeq(RAbs(RSub(a, b)), tol)

\* overflow-free comparison p/q <= r/s (q, s > 0) by the Euclidean algorithm: used to compare a
\* value recorded from the real code (fixed point) with an exact value whose denominator is unrelated
RECURSIVE SLeqN(_, _, _, _)
SLeqN(p, q, r, s) ==
  LET fp == p \div q  fr == r \div s  mp == p % q  mr == r % s
  IN IF fp < fr THEN TRUE
     ELSE IF fp > fr THEN FALSE
     ELSE IF mp = 0 THEN TRUE
     ELSE IF mr = 0 THEN FALSE
     ELSE SLeqN(s, mr, q, mp)            \* mp/q <= mr/s  <=>  s/mr <= q/mp
SLeq(a, b) == SLeqN(a[1], a[2], b[1], b[2])
\* |n/den - y| <= t/den   for an integer n over den (fixed point) and any rational y
FxNear(n, t, den, y) == SLeq(<<n - t, den>>, y) /\ SLeq(y, <<n + t, den>>)

\* sequences of rationals
RECURSIVE RSumSeq(_)
RSumSeq(s) == IF s = <<>> THEN Zero ELSE RAdd(Head(s), RSumSeq(Tail(s)))
RECURSIVE RMaxSeq(_)
RMaxSeq(s) == IF Len(s) = 1 THEN s[1] ELSE RMax(Head(s), RMaxSeq(Tail(s)))
RECURSIVE RMinSeq(_)
RMinSeq(s) == IF Len(s) = 1 THEN s[1] ELSE RMin(Head(s), RMinSeq(Tail(s)))
RSeq(ints) == [i \in 1..Len(ints) |-> R(ints[i])]
\* fixed-point sequence (ints over one denominator) -> rationals
FxSeq(ints, den) == [i \in 1..Len(ints) |-> Norm(ints[i], den)]
=============================================================================
