------------------------------ MODULE TraceConfig ------------------------------
(* code -> spec for C16: each event is one configuration constructed, built, projected on a few     *)
(* finite weight tensors and evaluated on a few finite inputs with the real library.                 *)
(*  [ev |-> "Config", cfg, outcome |-> "rejected" | "ok" | "raised_later" | "non_finite" | "other_exception", *)
(*   synOutcome (outcome of the synonymous spelling, "" when there is none), synSame (same outputs)]    *)
EXTENDS ConfigSpace, TraceBase
VARIABLE l
tvars == <<l>>
Clauses(e) ==
  (IF e.outcome = "raised_later" THEN {"AcceptedButRaisesLater"} ELSE {})
  \cup (IF e.outcome = "non_finite" THEN {"AcceptedButNonFinite"} ELSE {})
  \cup (IF e.outcome = "other_exception" THEN {"RejectedWithOtherException"} ELSE {})
  \cup (IF MustReject(e.cfg) /\ e.outcome # "rejected" THEN {"MustBeRejected"} ELSE {})
  \cup (IF e.synOutcome # "" /\ (e.synOutcome # e.outcome \/ ~e.synSame) THEN {"SynonymsIdentical"} ELSE {})
  \cup (IF Valid(e.cfg) # (e.outcome # "rejected") THEN {"DRIFT:Valid"} ELSE {})
TraceInit == l = 1
TraceNext == /\ l <= Len(Trace) /\ l' = l + 1 /\ Record(Trace[l].i, Clauses(Trace[l]))
TraceSpec == TraceInit /\ [][TraceNext]_tvars
ASSUME TLCSet(1, {})
=============================================================================
