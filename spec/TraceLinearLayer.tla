--------------------------- MODULE TraceLinearLayer ---------------------------
(* code -> spec for C20: every Eval event must equal LinearFn of the recorded weights.        *)
(* Event [ev |-> "Eval", cfg, kden, k (ints), b (int over kden), xden, x (ints), oden, out, tolu] *)
EXTENDS TraceBase, PartialOrderOps
VARIABLE l
tvars == <<l>>
Nm(p) == Norm(p[1], p[2])
ClipX(c, i, v) == LET a == IF c.hasLo[i] THEN RMax(v, Nm(c.lo[i])) ELSE v
                  IN IF c.hasHi[i] THEN RMin(a, Nm(c.hi[i])) ELSE a
AnyBound(c) == \E i \in 1..Len(c.mono) : c.hasLo[i] \/ c.hasHi[i]
Fn(c, k, b, x) == RAdd(IF c.useBias THEN b ELSE Zero,
                       RSumSeq([i \in 1..Len(k) |-> RMul(k[i], IF AnyBound(c) THEN ClipX(c, i, x[i]) ELSE x[i])]))
Clauses(e) ==
  IF e.ev = "Raised" THEN {"Raised"} ELSE IF e.ev = "NonFinite" THEN {"Finite"} ELSE
  LET c == e.cfg
      k == FxSeq(e.k, e.kden)  b == Norm(e.b, e.kden)  x == FxSeq(e.x, e.xden)
  IN IF FxNear(e.out, e.tolu, e.oden, Fn(c, k, b, x)) THEN {} ELSE {"LinearFn"}
TraceInit == l = 1
TraceNext == /\ l <= Len(Trace) /\ l' = l + 1 /\ Record(Trace[l].i, Clauses(Trace[l]))
TraceSpec == TraceInit /\ [][TraceNext]_tvars
ASSUME TLCSet(1, {})
=============================================================================
