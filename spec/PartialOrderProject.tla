------------------------- MODULE PartialOrderProject -------------------------
(* State machine for C06: Linear and CategoricalCalibration weight constraints.               *)
(* Init picks a configuration (any acyclic pair sequence over the inputs / buckets) and any   *)
(* weight vector; then: the topological sort one loop iteration per action, the four min/max  *)
(* passes and the average, and for Linear the sign clip, both dominance projections and the   *)
(* normalisation as separate actions.                                                         *)
EXTENDS PartialOrderOps

CONSTANTS CfgSpace, Dom
VARIABLES cfg, w, w0, pc, topo, steps
vars == <<cfg, w, w0, pc, topo, steps>>

IsCat(c) == c.kind = "cat"
NumW(c) == IF IsCat(c) THEN c.nb ELSE Len(c.mono)
ValidCfg(c) ==
  IF IsCat(c) THEN Acyclic(c.pairs) /\ (c.hasMin /\ c.hasMax => RLeq(c.omin, c.omax))
  ELSE /\ Acyclic(Swap(c.mdom)) /\ Acyclic(Swap(c.rdom))
       /\ \A n \in 1..Len(c.mdom) : c.mono[c.mdom[n][1]] = 1 /\ c.mono[c.mdom[n][2]] = 1
       /\ \A n \in 1..Len(c.rdom) : c.mono[c.rdom[n][1]] # 0 /\ c.mono[c.rdom[n][1]] = c.mono[c.rdom[n][2]]
       /\ \A n \in 1..Len(c.mdom), m \in 1..Len(c.rdom) :
             {c.mdom[n][1], c.mdom[n][2]} \cap {c.rdom[m][1], c.rdom[m][2]} = {}
       /\ \A i \in 1..Len(c.range) : RLt(Zero, c.range[i])

\* the pair sequence whose projection is in progress
CurPairs == IF IsCat(cfg) THEN cfg.pairs
            ELSE IF steps # <<>> /\ Head(steps) = "D" THEN Swap(cfg.mdom) ELSE Swap(cfg.rdom)
Scaled(x) == IF ~IsCat(cfg) /\ steps # <<>> /\ Head(steps) = "R"
             THEN [i \in 1..Len(x) |-> RMul(x[i], Scaling(cfg, i))] ELSE x
Unscaled(x) == IF ~IsCat(cfg) /\ steps # <<>> /\ Head(steps) = "R"
               THEN [i \in 1..Len(x) |-> RDiv(x[i], Scaling(cfg, i))] ELSE x

Init == /\ cfg \in {c \in CfgSpace : ValidCfg(c)}
        /\ w \in [1..NumW(cfg) -> {R(a) : a \in Dom}]
        /\ w0 = w
        /\ steps = IF IsCat(cfg) THEN (IF cfg.pairs = <<>> THEN <<"C">> ELSE <<"P", "C">>) ELSE LinSteps(cfg)
        /\ pc = "next" /\ topo = [q |-> <<>>, seen |-> {}, result |-> <<>>]

\* simple steps of Linear / the categorical clip
Simple == /\ pc = "next" /\ steps # <<>> /\ Head(steps) \in {"S", "N", "C"}
          /\ w' = (IF Head(steps) = "C" THEN ClipSeq(cfg, w) ELSE LinStep(cfg, Head(steps), w))
          /\ steps' = Tail(steps) /\ UNCHANGED <<cfg, w0, pc, topo>>
\* partial-order projection: sort, passes
StartSort == /\ pc = "next" /\ steps # <<>> /\ Head(steps) \in {"P", "D", "R"}
             /\ topo' = TopoInit(CurPairs) /\ pc' = "sort" /\ UNCHANGED <<cfg, w, w0, steps>>
SortStep == /\ pc = "sort" /\ topo.q # <<>>
            /\ topo' = TopoStep(CurPairs, topo) /\ UNCHANGED <<cfg, w, w0, pc, steps>>
Passes == /\ pc = "sort" /\ topo.q = <<>>
          /\ LET x == Scaled(w)
                 a == MinMax(CurPairs, x, topo.result)
                 b == MaxMin(CurPairs, x, topo.result)
             IN w' = Unscaled([i \in 1..Len(w) |-> RHalf(RAdd(a[i], b[i]))])
          /\ pc' = "next" /\ steps' = Tail(steps) /\ UNCHANGED <<cfg, w0, topo>>
Done == pc = "next" /\ steps = <<>> /\ UNCHANGED vars
Next == Simple \/ StartSort \/ SortStep \/ Passes \/ Done
Spec == Init /\ [][Next]_vars

AtEnd == pc = "next" /\ steps = <<>>
\* the DFS yields a topological order of the constrained nodes, for every DAG
InvTopo == (pc = "sort" /\ topo.q = <<>>) => IsTopoOrder(CurPairs, topo.result)
\* both candidates are feasible before averaging
InvCandidates == (pc = "sort" /\ topo.q = <<>>) =>
                   /\ PairsOK(CurPairs, MinMax(CurPairs, Scaled(w), topo.result), Zero)
                   /\ PairsOK(CurPairs, MaxMin(CurPairs, Scaled(w), topo.result), Zero)
InvCat == AtEnd /\ IsCat(cfg) => PairsOK(cfg.pairs, w, Zero) /\ CatBoundsOK(cfg, w, Zero)
InvLin == AtEnd /\ ~IsCat(cfg) => SignsOK(cfg, w) /\ MDomOK(cfg, w, Zero) /\ RDomOK(cfg, w, Zero)
                                   /\ L1NormOK(cfg, w, Zero)
InvFixed == AtEnd => IF IsCat(cfg) THEN (CatFeasible(cfg, w0) => w = w0)
                     ELSE (LinFeasible(cfg, w0) => w = w0)
InvFunc == AtEnd => w = (IF IsCat(cfg) THEN CatProject(cfg, w0) ELSE LinProject(cfg, w0))
=============================================================================
