---------------------------- MODULE MC_RtlStructure ----------------------------
EXTENDS RtlStructure
\* increasing group of 2 units, increasing single, unconstrained group of 2: sorted keys put 'increasing' first
InputsA == << <<1, 0, 0>>, <<1, 0, 1>>, <<1, 1, 2>>, <<0, 2, 3>>, <<0, 2, 4>> >>
InputsB == << <<1, 0, 0>>, <<1, 0, 1>>, <<0, 1, 2>>, <<0, 2, 3>> >>
InputsC == << <<0, 0, 0>>, <<0, 0, 1>>, <<0, 0, 2>>, <<0, 1, 3>> >>
=============================================================================
