----------------------------- MODULE MC_Compose -----------------------------
(* Instances of ComposeMC: the wirings the premade builders produce, written by hand from           *)
(* premade_lib (calibrated linear with/without bounds, calibrated lattice, output calibration,      *)
(* ensembles with shared/separate calibrators, average / linear combination), each with small       *)
(* value grids - and deliberately mis-wired variants for the self-tests.                            *)
EXTENDS ComposeMC
Pt(v) == [m |-> FALSE, v |-> v]
Miss == [m |-> TRUE, v |-> Zero]
Pts(S) == {Pt(v) : v \in S}
Pwl(kp, mono, hasB, lo, hi, units, imp) ==
  [kind |-> "pwl", kp |-> kp, mono |-> mono, hasMin |-> hasB, omin |-> lo, hasMax |-> hasB, omax |-> hi,
   clampMin |-> FALSE, clampMax |-> FALSE, units |-> units, imputes |-> imp]
Cat(nb, pairs, hasB, lo, hi, units) ==
  [kind |-> "cat", nb |-> nb, pairs |-> pairs, hasMin |-> hasB, omin |-> lo, hasMax |-> hasB, omax |-> hi, units |-> units]
Lat(sizes, mono, hasB, lo, hi, ins, interp) ==
  [kind |-> "lattice", sizes |-> sizes, mono |-> mono, uni |-> [d \in 1..Len(sizes) |-> 0], edge |-> <<>>, trap |-> <<>>,
   mdom |-> <<>>, rdom |-> <<>>, jmono |-> <<>>, juni |-> <<>>, hasMin |-> hasB, omin |-> lo, hasMax |-> hasB, omax |-> hi,
   iters |-> 10, strict |-> TRUE, ins |-> ins, interp |-> interp, clip |-> FALSE]
Lin(mono, norm, useBias, ins) ==
  [kind |-> "linear", mono |-> mono, mdom |-> <<>>, rdom |-> <<>>, range |-> [i \in 1..Len(mono) |-> One], norm |-> norm,
   useBias |-> useBias, ins |-> ins]
FPwl(dir) == [kind |-> "pwl", dir |-> dir, pairs |-> <<>>]
FCat(pairs) == [kind |-> "cat", dir |-> IF pairs = <<>> THEN 0 ELSE 1, pairs |-> pairs]
NoComb == [kind |-> "none"]
Avg == [kind |-> "avg"]
NoOc == [on |-> FALSE]
Oc(kp, lo, hi) == [on |-> TRUE, kind |-> "pwl", kp |-> kp, mono |-> 1, hasMin |-> TRUE, omin |-> lo, hasMax |-> TRUE, omax |-> hi,
                   clampMin |-> FALSE, clampMax |-> FALSE]
Model(feats, cals, mids, comb, oc, hasB, lo, hi) ==
  [feats |-> feats, cals |-> cals, mids |-> mids, comb |-> comb, oc |-> oc, hasMin |-> hasB, omin |-> lo, hasMax |-> hasB, omax |-> hi]
I(m, calG, midG, combG, ocG, biasG, xs) == [m |-> m, calG |-> calG, midG |-> midG, combG |-> combG, ocG |-> ocG, biasG |-> biasG, xs |-> xs]
H == <<1, 2>>
Rs(S) == {R(a) : a \in S}
KP3 == <<R(0), R(1), R(2)>>
KP2 == <<R(0), R(2)>>
XP3 == Pts({R(-1), R(0), H, R(1), Q(3, 2), R(2), R(3)})
XP2 == Pts({R(-1), R(0), R(1), R(2), R(3)})
XC3 == Pts(Rs({0, 1, 2}))
G01 == {Zero, H, One}

\* calibrated linear, no bounds: unbounded calibrators, signed weights, bias
CLinFree == I(Model(<<FPwl(1), FPwl(-1)>>, <<Pwl(KP3, 1, FALSE, Zero, Zero, 1, FALSE), Pwl(KP2, -1, FALSE, Zero, Zero, 1, FALSE)>>,
                    <<Lin(<<1, 1>>, 0, TRUE, <<<<1, 1>>, <<2, 1>>>>)>>, NoComb, NoOc, FALSE, Zero, Zero),
              <<Rs({-1, 0, 2}), Rs({-1, 0, 2})>>, <<Rs({0, 1, 3})>>, {}, {}, Rs({-1, 2}), <<XP3, XP2>>)
\* calibrated linear with bounds [1, 3]: calibrators bounded by the model bounds, weighted average
CLinBounded == I(Model(<<FPwl(1), FCat(<<<<1, 2>>>>)>>, <<Pwl(KP3, 1, TRUE, R(1), R(3), 1, TRUE), Cat(3, <<<<1, 2>>>>, TRUE, R(1), R(3), 1)>>,
                       <<Lin(<<1, 1>>, 1, FALSE, <<<<1, 1>>, <<2, 1>>>>)>>, NoComb, NoOc, TRUE, R(1), R(3)),
                 <<Rs({1, 2, 3}), Rs({1, 2, 3})>>, <<{Zero, H, One, Q(1, 4), Q(3, 4)}>>, {}, {}, {Zero}, <<XP3 \cup {Miss}, XC3 \cup {Miss}>>)
\* calibrated lattice: pwl increasing (with missing value) + categorical with a pair -> 2x2 lattice, bounds [0, 2]
CLat(interp) == I(Model(<<FPwl(1), FCat(<<<<1, 2>>>>)>>, <<Pwl(KP3, 1, TRUE, Zero, One, 1, TRUE), Cat(3, <<<<1, 2>>>>, TRUE, Zero, One, 1)>>,
                        <<Lat(<<2, 2>>, <<1, 1>>, TRUE, Zero, R(2), <<<<1, 1>>, <<2, 1>>>>, interp)>>, NoComb, NoOc, TRUE, Zero, R(2)),
                  <<G01, {Zero, One}>>, <<Rs({0, 2})>>, {}, {}, {Zero}, <<XP3 \cup {Miss}, XC3 \cup {Miss}>>)
\* decreasing feature into a size-2 slot, unconstrained feature into a size-3 slot, no bounds
CLatFree == I(Model(<<FPwl(-1), FPwl(0)>>, <<Pwl(KP2, -1, TRUE, Zero, One, 1, FALSE), Pwl(KP2, 0, TRUE, Zero, R(2), 1, FALSE)>>,
                    <<Lat(<<2, 3>>, <<1, 0>>, FALSE, Zero, Zero, <<<<1, 1>>, <<2, 1>>>>, "hypercube")>>, NoComb, NoOc, FALSE, Zero, Zero),
              <<{Zero, One}, Rs({0, 1, 2})>>, <<Rs({-1, 1})>>, {}, {}, {Zero}, <<XP2, Pts(Rs({-1, 0, 1, 2}))>>)
\* output calibration: lattice output in [0, 1], calibrator keypoints on [0, 1], model bounds [-1, 1]
CLatOc == I(Model(<<FPwl(1)>>, <<Pwl(KP3, 1, TRUE, Zero, R(2), 1, FALSE)>>,
                  <<Lat(<<3>>, <<1>>, TRUE, Zero, One, <<<<1, 1>>>>, "hypercube")>>, NoComb, Oc(<<Zero, H, One>>, R(-1), One), TRUE, R(-1), One),
            <<Rs({0, 1, 2})>>, <<G01>>, {}, Rs({-1, 0, 1}), {Zero}, <<XP3>>)
\* ensemble of two lattices sharing feature 2 through separate calibrators, averaged, bounds [0, 1]
EnsAvg == I(Model(<<FPwl(1), FPwl(-1), FCat(<<<<1, 2>>>>)>>,
                  <<Pwl(KP2, 1, TRUE, Zero, One, 1, FALSE), Pwl(KP2, -1, TRUE, Zero, One, 2, FALSE), Cat(2, <<<<1, 2>>>>, TRUE, Zero, One, 1)>>,
                  <<Lat(<<2, 2>>, <<1, 1>>, TRUE, Zero, One, <<<<1, 1>>, <<2, 1>>>>, "hypercube"),
                    Lat(<<2, 2>>, <<1, 1>>, TRUE, Zero, One, <<<<2, 2>>, <<3, 1>>>>, "hypercube")>>, Avg, NoOc, TRUE, Zero, One),
            <<{Zero, One}, {Zero, One}, {Zero, One}>>, <<{Zero, One}, {Zero, One}>>, {}, {}, {Zero},
            <<Pts(Rs({-1, 0, 1, 2, 3})), Pts(Rs({-1, 1, 3})), Pts(Rs({0, 1}))>>)
\* ensemble with a bounded linear combination (L1-normalised non-negative weights, no bias)
EnsLin == I(Model(<<FPwl(1), FPwl(1)>>, <<Pwl(KP2, 1, TRUE, Zero, One, 1, FALSE), Pwl(KP2, 1, TRUE, Zero, One, 2, TRUE)>>,
                  <<Lat(<<2, 2>>, <<1, 1>>, TRUE, R(1), R(2), <<<<1, 1>>, <<2, 1>>>>, "hypercube"),
                    Lat(<<2>>, <<1>>, TRUE, R(1), R(2), <<<<2, 2>>>>, "hypercube")>>,
                  [kind |-> "lin", mono |-> <<1, 1>>, mdom |-> <<>>, rdom |-> <<>>, range |-> <<One, One>>, norm |-> 1, useBias |-> FALSE],
                  NoOc, TRUE, R(1), R(2)),
            <<{Zero, One}, {Zero, One}>>, <<Rs({1, 2}), Rs({1, 2})>>, {Zero, H, One}, {}, {Zero},
            <<Pts(Rs({-1, 0, 1, 2, 3})), Pts(Rs({-1, 1, 3})) \cup {Miss}>>)

Quick == {CLinFree, CLat("hypercube"), CLatOc, CLatFree}
Thorough == {CLinFree, CLinBounded, CLat("hypercube"), CLat("simplex"), CLatFree, CLatOc, EnsAvg, EnsLin}
ZeroNorm == {CLinBounded}
\* mis-wired variants (self-tests: the contracts are not vacuous)
BadMono == {[CLat("hypercube") EXCEPT !.m.mids = <<[@[1] EXCEPT !.mono = <<0, 1>>]>>]}
BadRange == {[CLatOc EXCEPT !.m.cals = <<[@[1] EXCEPT !.omax = R(3)]>>, !.calG = <<Rs({0, 1, 3})>>]}
BadDir == {[CLatFree EXCEPT !.m.cals = <<[@[1] EXCEPT !.mono = 1], @[2]>>]}
=============================================================================
