----------------------------- MODULE LatticeEval -----------------------------
(* State machine for C02: pick any lattice, kernel and point; MoveUp moves one coordinate to a   *)
(* larger grid value.  Invariants = the clauses of the property; action properties = inheritance. *)
EXTENDS LatticeInterp
CONSTANTS SizeSet, KDom, XGrid
VARIABLES cfg, kern, x
vars == <<cfg, kern, x>>
Zs(n) == [i \in 1..n |-> 0]
Mk(s) == [sizes |-> s, mono |-> Zs(Len(s)), uni |-> Zs(Len(s)), edge |-> <<>>, trap |-> <<>>]
Init == /\ cfg \in {Mk(s) : s \in SizeSet}
        /\ kern \in [Vertices(cfg) -> {R(a) : a \in KDom}]
        /\ x \in [Dims(cfg) -> XGrid]
MoveUp == \E d \in Dims(cfg), v \in XGrid : RLt(x[d], v) /\ x' = [x EXCEPT ![d] = v] /\ UNCHANGED <<cfg, kern>>
Spec == Init /\ [][MoveUp]_vars

H(xx) == Hyper(cfg, kern, xx, TRUE)
S(xx) == Simplex(cfg, kern, xx, TRUE)
IsVertex(xx) == \A d \in Dims(cfg) : xx[d][2] = 1 /\ xx[d][1] >= 0 /\ xx[d][1] <= cfg.sizes[d] - 1
AsVertex(xx) == [d \in Dims(cfg) |-> xx[d][1]]
NonInt(xx) == {d \in Dims(cfg) : xx[d][2] # 1}
xc == ClipPt(cfg, x, TRUE)
\* reproduces a vertex's weight exactly at that vertex
InvVertex == IsVertex(xc) => H(x) = kern[AsVertex(xc)] /\ S(x) = kern[AsVertex(xc)]
\* convex combination of the cell's corners: weights non-negative, sum to one => within [min, max]
InvHull == /\ RLeq(KernelMin(cfg, kern), H(x)) /\ RLeq(H(x), KernelMax(cfg, kern))
           /\ RLeq(KernelMin(cfg, kern), S(x)) /\ RLeq(S(x), KernelMax(cfg, kern))
\* the dimension-wise evaluation is the plain sum over all vertices
InvSumForm == H(x) = HyperBySum(cfg, kern, x, TRUE)
InvWeights == /\ \A v \in Vertices(cfg) : RLeq(Zero, HWeight(cfg, xc, v))
              /\ SumOver(Vertices(cfg), LAMBDA v : HWeight(cfg, xc, v)) = One
\* the two schemes agree on vertices and axis-parallel edges
InvAgree == Cardinality(NonInt(xc)) <= 1 => H(x) = S(x)
\* continuity: single-valued on shared cell faces, and independent of the tie order of residuals
InvContinuous == \A lo \in LowerAlts(cfg, xc), tie \in {1, -1} : SimplexFrom(cfg, kern, xc, lo, tie) = S(x)
\* without clipping the in-range value is the same
InvClipIrrelevant == InRange(cfg, x) => Hyper(cfg, kern, x, FALSE) = H(x) /\ Simplex(cfg, kern, x, FALSE) = S(x)

Moved(d) == RLt(x[d], x'[d]) /\ \A j \in Dims(cfg) : j # d => x'[j] = x[j]
MonoIn(d) == MonoOK([cfg EXCEPT !.mono = [j \in Dims(cfg) |-> IF j = d THEN 1 ELSE 0]], kern, Zero)
\* kernel non-decreasing along a dimension => output non-decreasing in that input, both schemes
InheritMono == [][\A d \in Dims(cfg) : (Moved(d) /\ MonoIn(d)) => RLeq(H(x), H(x')) /\ RLeq(S(x), S(x'))]_vars
\* hypercube + Edgeworth-feasible kernel: the effect of the main feature is monotone in the conditional one
EdgeCfg(m, cd) == [cfg EXCEPT !.edge = << <<m, cd, 1>> >>]
EffectOfMain(xx, m) == RSub(H([xx EXCEPT ![m] = R(cfg.sizes[m] - 1)]), H([xx EXCEPT ![m] = Zero]))
InheritEdgeworth == [][\A m, cd \in Dims(cfg) :
                        (m # cd /\ Moved(cd) /\ EdgeOK(EdgeCfg(m, cd), kern, Zero))
                          => RLeq(EffectOfMain(x, m), EffectOfMain(x', m))]_vars
=============================================================================
