----------------------------- MODULE ConditionalFns -----------------------------
(* State machine for C15 (pwl_calibration_fn): every call form, any abstract softmax / sigmoid outcome, *)
(* and inputs moving up a grid.                                                                          *)
EXTENDS ConditionalOps
CONSTANTS Simplex2, Simplex3, Sig, XGrid, NoneFixed
VARIABLES c, K, sm, kern, x, missOut
vars == <<c, K, sm, kern, x, missOut>>
Forms == {f \in [mono : {"none", "increasing"}, clampMin : BOOLEAN, clampMax : BOOLEAN, cyclic : BOOLEAN,
                 hasMissIn : BOOLEAN, hasMissOut : BOOLEAN, imin : {Zero}, imax : {R(2)}, omin : {R(-1)}, omax : {R(3)}] : ValidForm(f)}
SimplexOf(n) == IF n = 1 THEN {<<One>>} ELSE IF n = 2 THEN Simplex2 ELSE Simplex3
\* number of entries the softmax / sigmoid stage produces for this form and K keypoints
NOut(f, k) == ParamSize(f, k) - B2N(f.hasMissIn) + B2N(f.hasMissOut)      \* parameters that describe outputs
Init == /\ c \in Forms /\ K \in {2, 3}
        /\ sm \in SimplexOf(K - 1)
        /\ NOut(c, K) >= 1 /\ NOut(c, K) <= 3 /\ (c.mono = "increasing" => NOut(c, K) <= 2)
        /\ kern \in IF c.mono = "none" THEN {KernelNone(c, sg) : sg \in [1..NOut(c, K) -> Sig]}
                    ELSE {KernelInc(c, s2) : s2 \in SimplexOf(NOut(c, K) + 1)}
        /\ x \in XGrid /\ missOut \in {RAdd(c.omin, RMul(s, RSub(c.omax, c.omin))) : s \in Sig}
MoveUp == \E v \in XGrid : RLt(x, v) /\ x' = v /\ UNCHANGED <<c, K, sm, kern, missOut>>
Spec == Init /\ [][MoveUp]_vars
KP == Keypoints(c, sm)
Out(v) == FnEval(KP, kern, v)
\* the derived kernel has exactly one entry per keypoint: the size arithmetic of every call form is consistent
InvSizes == Len(kern) = K /\ Len(KP) = K
InvBounded == RLeq(c.omin, Out(x)) /\ RLeq(Out(x), c.omax)
InvClamped == /\ (c.clampMin => Out(c.imin) = c.omin) /\ (c.clampMax => Out(c.imax) = c.omax)
InvCyclic == c.cyclic => Out(c.imin) = Out(c.imax)
InvMissing == RLeq(c.omin, missOut) /\ RLeq(missOut, c.omax)
Monotone == [][(RLt(x, x') /\ c.mono = "increasing") => RLeq(Out(x), Out(x'))]_vars
\* documented call form with omitted interior keypoint parameters: the code computed num_keypoints = 0
\* instead of 2 (NoneFixed = FALSE reproduces it): then no output_param_size is positive
CodeParamSize(f, inputParamsGiven, nInputParams) ==
  ParamSize(f, IF inputParamsGiven THEN nInputParams + 2 ELSE IF NoneFixed THEN 2 ELSE 0)
InvNoneFormAccepted == (K = 2) => CodeParamSize(c, FALSE, 0) = ParamSize(c, 2)
=============================================================================
