---------------------------- MODULE CalibratorOps ----------------------------
(* C05: the functions computed by tfl.layers.PWLCalibration and CategoricalCalibration.        *)
(* c = [kp (seq of rationals, strictly increasing), cyclic]; kernel = <<bias, h_1, .., h_m>>     *)
(* with m = Len(kp) - 1 heights (one fewer when cyclic: the closing height is minus their sum).  *)
EXTENDS Integers, Sequences, FiniteSets, Rat, TLC

NK(c) == Len(c.kp)
SegLen(c, j) == RSub(c.kp[j + 1], c.kp[j])
\* all heights, including the closing one of a cyclic calibrator
Heights(c, kern) ==
  LET hs == SubSeq(kern, 2, Len(kern))
  IN IF c.cyclic THEN Append(hs, RNeg(RSumSeq(hs))) ELSE hs
PwlEval(c, kern, x) ==
  LET hs == Heights(c, kern)
  IN RAdd(kern[1], RSumSeq([j \in 1..Len(hs) |->
                              RMul(hs[j], RClip(RDiv(RSub(x, c.kp[j]), SegLen(c, j)), Zero, One))]))
RECURSIVE Cum(_, _)
Cum(kern, i) == IF i = 1 THEN kern[1] ELSE RAdd(Cum(kern, i - 1), kern[i])
\* keypoints_outputs(): cumulative sums, first one appended again when cyclic
KeypointsOutputs(c, kern) ==
  LET cs == [i \in 1..Len(kern) |-> Cum(kern, i)] IN IF c.cyclic THEN Append(cs, cs[1]) ELSE cs
\* with missing-value imputation
PwlEvalMissing(c, kern, x, isMissing, missingOut) == IF isMissing THEN missingOut ELSE PwlEval(c, kern, x)

\* categorical: kernel = sequence of bucket values; default_input_value maps to the last bucket
CatEval(kern, idx, hasDefault, default) == IF hasDefault /\ idx = default THEN kern[Len(kern)] ELSE kern[idx + 1]
=============================================================================
