--------------------------- MODULE TraceConditional ---------------------------
(* code -> spec for C14 and C15.                                                                      *)
(*  PwlFn  [c (ConditionalOps form, rationals as [n,d]), den, deltas, kern (derived parameters returned  *)
(*          by the real call), xden, xs, oden, outs, layer (outputs of a PWLCalibration layer holding the   *)
(*          derived keypoints / kernel, or <<>>), missIn, missOut (ints), tolu]                             *)
(*  Form   [c, nInputParams, given, accepted]          a documented call form                              *)
(*  Cdf    [act, red, sf, units, nin, nk, kden, kernel (flat [d][j][g]), scale ([d]), xden, xs (points),      *)
(*          oden, outs (per point: units values), fn (cdf_fn on the same parameters, or <<>>), tolu]           *)
(*  Pair   [a, b, tolu, what]                           two real observations that must agree (C14)          *)
EXTENDS ConditionalOps, TraceBase
VARIABLE l
tvars == <<l>>
Nm(p) == Norm(p[1], p[2])
Form(e) == [e.c EXCEPT !.imin = Nm(e.c.imin), !.imax = Nm(e.c.imax), !.omin = Nm(e.c.omin), !.omax = Nm(e.c.omax)]
RECURSIVE SumI(_, _)
SumI(s, n) == IF n = 0 THEN 0 ELSE s[n] + SumI(s, n - 1)
NearI(a, b, t) == Len(a) = Len(b) /\ \A n \in 1..Len(a) : a[n] - b[n] <= t /\ b[n] - a[n] <= t
\* integer fixed-point evaluation (scale e.den) of the PWL function of the derived parameters: exact
\* rationals overflow 32 bits for real-valued segment lengths
RECURSIVE KpFx(_, _, _)
KpFx(imin, d, j) == IF j = 0 THEN imin ELSE KpFx(imin, d, j - 1) + d[j]
FnEvalFx(imin, d, k, xf, sc) ==
  LET wt(j) == LET r == ((xf - KpFx(imin, d, j - 1)) * sc) \div d[j] IN IF r < 0 THEN 0 ELSE IF r > sc THEN sc ELSE r
      RECURSIVE S(_)
      S(j) == IF j = 0 THEN 0 ELSE (k[j + 1] * wt(j)) \div sc + S(j - 1)
  IN k[1] + S(Len(d))
PwlFnClauses(e) ==
  LET c == Form(e)
      d == FxSeq(e.deltas, e.den)  k == FxSeq(e.kern, e.den)
      kp == [j \in 1..(Len(d) + 1) |-> RAdd(c.imin, CumD(d, j - 1))]
      tol == Norm(e.tolu, e.oden)
      np == Len(e.xs)
      xv(n) == Norm(e.xs[n], e.xden)
      isMiss(n) == c.hasMissIn /\ e.xs[n] = e.missIn
      out(n) == Norm(e.outs[n], e.oden)
  IN \* refinement mapping: the derived parameters satisfy the facts the abstraction assumes
     (IF (\A j \in 1..Len(d) : d[j][1] >= 0) /\ RNear(RSumSeq(d), RSub(c.imax, c.imin), RMul(tol, R(4))) THEN {} ELSE {"DerivedKeypointDeltas"})
     \cup (IF Len(k) = Len(kp) THEN {} ELSE {"DerivedSizes"})
     \cup (IF c.mono = "increasing" /\ \E j \in 2..Len(k) : k[j][1] < 0 THEN {"DerivedHeightsNonNegative"} ELSE {})
     \* the function is the PWL interpolation of its derived parameters
     \* (evaluated only when every derived segment is long enough for the fixed-point quotient to be meaningful)
     \cup (IF Len(k) = Len(kp) /\ (\A j \in 1..Len(d) : e.deltas[j] >= 128) /\ \E n \in 1..np : ~isMiss(n) /\
                LET v == FnEvalFx((c.imin[1] * e.den) \div c.imin[2], e.deltas, e.kern, (e.xs[n] * e.den) \div e.xden, e.den)
                    o == (e.outs[n] * e.den) \div e.oden
                IN v - o > e.ctol \/ o - v > e.ctol
           THEN {"FnIsPwlOfDerived"} ELSE {})
     \* C15 contract on the real outputs
     \cup (IF \E n \in 1..np : ~(RLeq(RSub(c.omin, tol), out(n)) /\ RLeq(out(n), RAdd(c.omax, tol))) THEN {"OutputsBounded"} ELSE {})
     \cup (IF c.mono = "increasing" /\ \E n, m \in 1..np : ~isMiss(n) /\ ~isMiss(m) /\ e.xs[n] < e.xs[m] /\ e.outs[n] > e.outs[m] + 2 * e.tolu
           THEN {"Monotone"} ELSE {})
     \cup (IF c.clampMin /\ \E n \in 1..np : ~isMiss(n) /\ xv(n) = c.imin /\ ~RNear(out(n), c.omin, RMul(tol, R(4))) THEN {"ClampMinReached"} ELSE {})
     \cup (IF c.clampMax /\ \E n \in 1..np : ~isMiss(n) /\ xv(n) = c.imax /\ ~RNear(out(n), c.omax, RMul(tol, R(4))) THEN {"ClampMaxReached"} ELSE {})
     \cup (IF c.cyclic /\ \E n, m \in 1..np : ~isMiss(n) /\ ~isMiss(m) /\ xv(n) = c.imin /\ xv(m) = c.imax /\ ~RNear(out(n), out(m), RMul(tol, R(4))) THEN {"CyclicEndsEqual"} ELSE {})
     \cup (IF c.hasMissOut /\ \E n \in 1..np : isMiss(n) /\ ~(e.outs[n] - e.missOut <= e.tolu /\ e.missOut - e.outs[n] <= e.tolu)
           THEN {"MissingMapsToMissingOutput"} ELSE {})
     \* C14: the PWLCalibration layer holding the derived parameters computes the same outputs
     \cup (IF Len(e.layer) > 0 /\ \E n \in 1..np : ~isMiss(n) /\ (e.layer[n] - e.outs[n] > 4 * e.tolu \/ e.outs[n] - e.layer[n] > 4 * e.tolu)
           THEN {"FnEqualsLayer"} ELSE {})
FormClauses(e) ==
  LET c == Form(e)
      K == IF e.given THEN e.nInputParams + 2 ELSE 2
  IN IF ValidForm(c) /\ ParamSize(c, K) >= 1 /\ ~e.accepted THEN {"DocumentedFormAccepted"} ELSE {}
\* CDF: kernel index (d, j, g) -> flat (1-based), units per group G = units / sf
CdfClauses(e) ==
  LET G == e.units \div e.sf
      kof(d, j, g) == Norm(e.kernel[((d - 1) * e.nk + (j - 1)) * G + g], e.kden)
      basis(p, d, g) == CdfBasis([j \in 1..e.nk |-> kof(d, j, g)], Norm(e.scale[d], e.kden), Norm(e.xs[p][d], e.xden))
      \* after the sparsity reshape, (row r, unit u) collects the flat entries r * units + u of the (d, g) table
      entry(p, f) == basis(p, ((f - 1) \div G) + 1, ((f - 1) % G) + 1)
      rows == e.nin \div e.sf
      want(p, u) == RDiv(RSumSeq([r \in 1..rows |-> entry(p, (r - 1) * e.units + u)]), R(rows))
      np == Len(e.xs)
  IN (IF e.act = "relu6" /\ e.red = "mean" /\ \E p \in 1..np, u \in 1..e.units : ~FxNear(e.outs[p][u], 4 * e.tolu, e.oden, want(p, u))
      THEN {"CdfFunction"} ELSE {})
     \cup (IF \E p \in 1..np : \E u \in 1..Len(e.outs[p]) : e.outs[p][u] < -e.tolu - e.slack \/ e.outs[p][u] > e.oden + e.tolu + e.slack THEN {"CdfInUnitInterval"} ELSE {})
     \cup (IF \E p, q \in 1..np : (\A d \in 1..e.nin : e.xs[p][d] <= e.xs[q][d]) /\ \E u \in 1..Len(e.outs[p]) : e.outs[p][u] > e.outs[q][u] + 2 * e.tolu
           THEN {"CdfMonotone"} ELSE {})
     \cup (IF Len(e.fn) > 0 /\ \E p \in 1..np : ~NearI(e.fn[p], e.outs[p], 4 * e.tolu) THEN {"CdfFnEqualsLayer"} ELSE {})
Clauses(e) == CASE e.ev = "PwlFn" -> PwlFnClauses(e) [] e.ev = "Form" -> FormClauses(e) [] e.ev = "Cdf" -> CdfClauses(e)
                [] e.ev = "Pair" -> (IF NearI(e.a, e.b, e.tolu) THEN {} ELSE {"Equal:" \o e.what})
                [] e.ev = "Raised" -> {"Raised"} [] e.ev = "NonFinite" -> {"Finite"}
TraceInit == l = 1
TraceNext == /\ l <= Len(Trace) /\ l' = l + 1 /\ Record(Trace[l].i, Clauses(Trace[l]))
TraceSpec == TraceInit /\ [][TraceNext]_tvars
ASSUME TLCSet(1, {})
=============================================================================
