-------------------------- MODULE MC_CalibratorEval --------------------------
EXTENDS CalibratorEval, Json, IOUtils, SequencesExt
KpQ == {<<0, 1>>, <<0, 1, 3>>, <<0, 2, 3>>, <<-1, 0, 2, 5>>}
KpT == {<<0, 1>>, <<0, 1, 3>>, <<0, 2, 3>>, <<-1, 0, 2, 5>>, <<0, 3, 4, 6>>, <<0, 1, 2, 3, 4>>}
KQ == -1..2
KT == -2..2
GridQ == {Norm(n, 4) : n \in -8..24}
CaseFile(kps, kd, xg) == [kps |-> SetToSeq(kps), kvals |-> SetToSeq(kd), xgrid |-> SetToSeq(xg)]
Tier == IOEnv.VERIF_TIER
=============================================================================
