------------------------------ MODULE LatticeOps ------------------------------
(* tfl.layers.Lattice weight constraint: lattice_lib.project_by_dykstra (all eight families), *)
(* lattice_lib.finalize_constraints (monotonic, Edgeworth, trapezoid, bounds passes) and the  *)
(* final clip of LatticeConstraints.__call__ - pure operators over exact rationals - plus the *)
(* feasibility predicates of every constraint family (contracts of C01, reused by C08/C10/C12).*)
(*                                                                                             *)
(* A kernel (one unit) is a function [Vertices(c) -> Rat]; a vertex is a tuple of coordinates *)
(* (dimension d in 1..Rank, coordinate 0..size-1).  Kernels travel to and from the real code  *)
(* as flat row-major sequences (Flat / Unflat), the layout of the library's kernel variable.  *)
(*                                                                                             *)
(* configuration record c:                                                                     *)
(*   sizes (seq), mono (seq of 0/1), uni (seq of -1/0/1), edge, trap (seqs of <<main,cond,dir>>)*)
(*   mdom, rdom, jmono (seqs of <<a,b>>), juni (seq of <<dims, "valley"|"peak">>),            *)
(*   hasMin, omin, hasMax, omax, iters, strict                                                *)
EXTENDS Integers, Sequences, FiniteSets, Rat, TLC

Rank(c) == Len(c.sizes)
Dims(c) == 1..Rank(c)
MaxSize(c) == LET RECURSIVE M(_) M(d) == IF d = 0 THEN 0 ELSE IF c.sizes[d] > M(d - 1) THEN c.sizes[d] ELSE M(d - 1)
              IN M(Rank(c))
Vertices(c) == {v \in [Dims(c) -> 0..(MaxSize(c) - 1)] : \A d \in Dims(c) : v[d] < c.sizes[d]}
With(v, d, a) == [v EXCEPT ![d] = a]
With2(v, d1, a, d2, b) == [v EXCEPT ![d1] = a, ![d2] = b]

\* row-major flat index (1-based) of a vertex, and back
RECURSIVE Stride(_, _)
Stride(c, d) == IF d = Rank(c) THEN 1 ELSE c.sizes[d + 1] * Stride(c, d + 1)
RECURSIVE IdxFrom(_, _, _)
IdxFrom(c, v, d) == IF d > Rank(c) THEN 0 ELSE v[d] * Stride(c, d) + IdxFrom(c, v, d + 1)
Idx(c, v) == 1 + IdxFrom(c, v, 1)
NumV(c) == c.sizes[1] * Stride(c, 1)
VertexAt(c, k) == [d \in Dims(c) |-> ((k - 1) \div Stride(c, d)) % c.sizes[d]]
Flat(c, x) == [k \in 1..NumV(c) |-> x[VertexAt(c, k)]]
Unflat(c, s) == TLCEval([v \in Vertices(c) |-> s[Idx(c, v)]])

KMinus(x, y) == TLCEval([v \in DOMAIN x |-> RSub(x[v], y[v])])
KZero(c) == [v \in Vertices(c) |-> Zero]

MaxOver(S, f(_)) == LET RECURSIVE M(_)
                        M(T) == LET e == CHOOSE e \in T : TRUE
                                IN IF T = {e} THEN f(e) ELSE RMax(f(e), M(T \ {e}))
                    IN M(S)
MinOver(S, f(_)) == LET RECURSIVE M(_)
                        M(T) == LET e == CHOOSE e \in T : TRUE
                                IN IF T = {e} THEN f(e) ELSE RMin(f(e), M(T \ {e}))
                    IN M(S)

-----------------------------------------------------------------------------
(* Dykstra group projections (the _project_partial functions): each is the exact L2 projection onto one   *)
(* set of mutually independent constraints.                                                   *)

\* pair origin of coordinate a in parity group g along a dimension of the given size (or -1)
Origin(a, g, size) == IF a >= g /\ (a - g) % 2 = 0 /\ a + 1 <= size - 1 THEN a
                      ELSE IF a - 1 >= g /\ (a - 1 - g) % 2 = 0 THEN a - 1
                      ELSE -1

\* is the adjacent pair (i, i+1) along dimension d required to be non-decreasing (1),
\* non-increasing (-1) or unconstrained (0)?  (monotonicity and unimodality)
PairDir(c, d, i) ==
  IF c.mono[d] = 1 THEN 1
  ELSE IF c.uni[d] = 0 THEN 0
  ELSE LET first == i < (c.sizes[d] \div 2)
       IN IF (c.uni[d] = -1 /\ first) \/ (c.uni[d] = 1 /\ ~first) THEN 1 ELSE -1

PartialMono(c, x, d, g) ==
  [v \in Vertices(c) |->
     LET o == Origin(v[d], g, c.sizes[d]) IN
     IF o < 0 THEN x[v]
     ELSE LET lo == x[With(v, d, o)]  hi == x[With(v, d, o + 1)]
              avg == RHalf(RAdd(lo, hi))
              dir == PairDir(c, d, o)
          IN IF v[d] = o THEN (IF dir = 1 THEN RMin(lo, avg) ELSE RMax(lo, avg))
             ELSE (IF dir = 1 THEN RMax(hi, avg) ELSE RMin(hi, avg))]

\* coordinate along the conditional dimension after the code's optional reversal
Rv(c, cd, dir, j) == IF dir > 0 THEN j ELSE c.sizes[cd] - 1 - j

PartialEdge(c, x, t, g) ==
  LET m == t[1]  cd == t[2]  dir == t[3]
      L(o, i, j) == x[With2(o, m, i, cd, Rv(c, cd, dir, j))]
  IN [v \in Vertices(c) |->
        LET a == v[m]  b == Rv(c, cd, dir, v[cd])
            i0 == Origin(a, g[1], c.sizes[m])  j0 == Origin(b, g[2], c.sizes[cd])
        IN IF i0 < 0 \/ j0 < 0 THEN x[v]
           ELSE LET diff == RSub(RSub(L(v, i0 + 1, j0), L(v, i0, j0)),
                                 RSub(L(v, i0 + 1, j0 + 1), L(v, i0, j0 + 1)))
                    corr == RMax(RMul(diff, <<1, 4>>), Zero)
                IN IF (a - i0) = (b - j0) THEN RAdd(x[v], corr) ELSE RSub(x[v], corr)]

PartialTrap(c, x, t, g) ==
  LET m == t[1]  cd == t[2]  dir == t[3]  mm == c.sizes[m] - 1
      L(o, i, j) == x[With2(o, m, i, cd, Rv(c, cd, dir, j))]
  IN [v \in Vertices(c) |->
        LET b == Rv(c, cd, dir, v[cd])
            j0 == Origin(b, g, c.sizes[cd])
        IN IF j0 < 0 \/ (v[m] # 0 /\ v[m] # mm) THEN x[v]
           ELSE IF v[m] = 0 THEN
                  LET corr == RMax(RHalf(RSub(L(v, 0, j0 + 1), L(v, 0, j0))), Zero)
                  IN IF b = j0 THEN RAdd(x[v], corr) ELSE RSub(x[v], corr)
           ELSE   LET corr == RMax(RHalf(RSub(L(v, mm, j0), L(v, mm, j0 + 1))), Zero)
                  IN IF b = j0 THEN RSub(x[v], corr) ELSE RAdd(x[v], corr)]

\* monotonic dominance t = <<dominant, weak>>, g = <<g0, g1, g2>>
PartialMDom(c, x, t, g) ==
  LET p == t[1]  q == t[2]
      L(o, i, j) == x[With2(o, p, i, q, j)]
  IN [v \in Vertices(c) |->
        LET a == v[p]  b == v[q]
            i0 == Origin(a, g[1], c.sizes[p])  j0 == Origin(b, g[2], c.sizes[q])
        IN IF i0 < 0 \/ j0 < 0 THEN x[v]
           ELSE LET mid == RHalf(RAdd(L(v, i0, j0), L(v, i0 + 1, j0 + 1)))
                    corr == IF g[3] = 1 THEN RMax(RMul(RSub(mid, L(v, i0 + 1, j0)), <<1, 3>>), Zero)
                            ELSE RMin(RMul(RSub(mid, L(v, i0, j0 + 1)), <<1, 3>>), Zero)
                    da == a - i0  db == b - j0
                IN IF da = db THEN RSub(x[v], corr)
                   ELSE IF g[3] = 1 /\ da = 1 /\ db = 0 THEN RAdd(x[v], RMul(R(2), corr))
                   ELSE IF g[3] = 0 /\ da = 0 /\ db = 1 THEN RAdd(x[v], RMul(R(2), corr))
                   ELSE x[v]]

\* joint monotonicity t = <<dim1, dim2>>
PartialJMono(c, x, t, g) ==
  LET p == t[1]  q == t[2]
      L(o, i, j) == x[With2(o, p, i, q, j)]
  IN [v \in Vertices(c) |->
        LET a == v[p]  b == v[q]
            i0 == Origin(a, g[1], c.sizes[p])  j0 == Origin(b, g[2], c.sizes[q])
        IN IF i0 < 0 \/ j0 < 0 THEN x[v]
           ELSE LET mid == RHalf(RAdd(L(v, i0 + 1, j0), L(v, i0, j0 + 1)))
                    corr == IF g[3] = 1 THEN RMax(RMul(RSub(mid, L(v, i0 + 1, j0 + 1)), <<1, 3>>), Zero)
                            ELSE RMin(RMul(RSub(mid, L(v, i0, j0)), <<1, 3>>), Zero)
                    da == a - i0  db == b - j0
                IN IF da # db THEN RSub(x[v], corr)
                   ELSE IF g[3] = 1 /\ da = 1 THEN RAdd(x[v], RMul(R(2), corr))
                   ELSE IF g[3] = 0 /\ da = 0 THEN RAdd(x[v], RMul(R(2), corr))
                   ELSE x[v]]

\* range dominance t = <<dominant, weak>>, g = <<i, j>> (one lattice position per group)
PartialRDom(c, x, t, g) ==
  LET p == t[1]  q == t[2]  i == g[1]  j == g[2]
      dl == c.sizes[p] - 1  wl == c.sizes[q] - 1
      L(o, a, b) == x[With2(o, p, a, q, b)]
      diff(o) == RSub(RSub(L(o, i, wl), L(o, i, 0)), RSub(L(o, dl, j), L(o, 0, j)))
      corner == (i = 0 \/ i = dl) /\ (j = 0 \/ j = wl)
  IN [v \in Vertices(c) |->
        LET a == v[p]  b == v[q] IN
        IF corner THEN
          LET corr == RMax(RHalf(diff(v)), Zero)
              up == (i = 0 /\ a = dl /\ b = j) \/ (j # 0 /\ a = i /\ b = 0)
              dn == (i # 0 /\ a = 0 /\ b = j) \/ (j = 0 /\ a = i /\ b = wl)
          IN IF up THEN RAdd(x[v], corr) ELSE IF dn THEN RSub(x[v], corr) ELSE x[v]
        ELSE
          LET corr == RMax(RMul(diff(v), <<1, 4>>), Zero)
              d1 == IF a = i /\ b = wl THEN RNeg(corr) ELSE Zero
              d2 == IF a = i /\ b = 0 THEN corr ELSE Zero
              d3 == IF a = dl /\ b = j THEN corr ELSE Zero
              d4 == IF a = 0 /\ b = j THEN RNeg(corr) ELSE Zero
          IN RAdd(x[v], RAdd(RAdd(d1, d2), RAdd(d3, d4)))]

\* joint unimodality u = <<dims, direction>>; group = <<vertex over dims, offsets>>.
\* Hyperplane terms: sequence of <<position over dims, coefficient>>, or <<>> when the code
\* returns None for this (vertex, offsets).
JCenter(c, u) == [k \in 1..Len(u[1]) |-> c.sizes[u[1][k]] \div 2]
\* the code returns None as soon as a needed neighbour falls outside the lattice
JInRange(c, u, vx, off) ==
  \A k \in 1..Len(u[1]) : (vx[k] # JCenter(c, u)[k]) =>
     (vx[k] + off[k] >= 0 /\ vx[k] + off[k] < c.sizes[u[1][k]])
RECURSIVE JTerms(_, _, _, _, _)
JTerms(c, u, vx, off, k) ==       \* terms of dimensions k..n (only called when JInRange)
  IF k > Len(u[1]) THEN <<>>
  ELSE LET dw == vx[k] - JCenter(c, u)[k]
           rest == JTerms(c, u, vx, off, k + 1)
       IN IF dw = 0 THEN rest
          ELSE << <<[vx EXCEPT ![k] = vx[k] + off[k]], dw * off[k]>> >> \o rest
RECURSIVE SumCoef(_)
SumCoef(ts) == IF ts = <<>> THEN 0 ELSE ts[1][2] + SumCoef(Tail(ts))
RECURSIVE SumSq(_)
SumSq(ts) == IF ts = <<>> THEN 0 ELSE ts[1][2] * ts[1][2] + SumSq(Tail(ts))
JPlane(c, u, vx, off) ==
  IF vx = JCenter(c, u) \/ ~JInRange(c, u, vx, off) THEN <<>>
  ELSE LET ts == JTerms(c, u, vx, off, 1)
       IN IF ts = <<>> THEN <<>> ELSE ts \o << <<vx, -SumCoef(ts)>> >>
\* position of vertex v restricted to the constrained dims
JPos(u, v) == [k \in 1..Len(u[1]) |-> v[u[1][k]]]
RECURSIVE JPut(_, _, _)
JPut(u, v, pos) == LET RECURSIVE P(_, _)
                       P(w, k) == IF k > Len(u[1]) THEN w ELSE P(With(w, u[1][k], pos[k]), k + 1)
                   IN P(v, 1)
JViolation(c, x, u, plane, o) ==       \* sum of coefficient * weight, other coordinates from o
  LET RECURSIVE S(_)
      S(ts) == IF ts = <<>> THEN Zero
               ELSE RAdd(RMul(R(ts[1][2]), x[JPut(u, o, ts[1][1])]), S(Tail(ts)))
  IN S(plane)
PartialJUni(c, x, u, vx, off) ==
  LET plane == JPlane(c, u, vx, off) IN
  IF plane = <<>> THEN x
  ELSE [v \in Vertices(c) |->
          LET pos == JPos(u, v)
              hit == {k \in 1..Len(plane) : plane[k][1] = pos}
          IN IF hit = {} THEN x[v]
             ELSE LET k == CHOOSE k \in hit : TRUE
                      viol == JViolation(c, x, u, plane, v)
                      cl == IF u[2] = "valley" THEN RMin(viol, Zero) ELSE RMax(viol, Zero)
                  IN RSub(x[v], RMul(RDiv(cl, R(SumSq(plane))), R(plane[k][2])))]

-----------------------------------------------------------------------------
(* The Dykstra schedule: group keys in the code's loop order.                                 *)
(* key = <<kind, index in its list (or dimension), a, b, c>>                                   *)
RECURSIVE SeqCat(_)
SeqCat(ss) == IF ss = <<>> THEN <<>> ELSE Head(ss) \o SeqCat(Tail(ss))
Filter(s, P(_)) == LET RECURSIVE F(_)
                       F(t) == IF t = <<>> THEN <<>> ELSE (IF P(Head(t)) THEN <<Head(t)>> ELSE <<>>) \o F(Tail(t))
                   IN F(s)
MonoGroups(c) ==
  SeqCat([d \in Dims(c) |->
     IF c.mono[d] = 0 /\ c.uni[d] = 0 THEN <<>>
     ELSE << <<"M", d, 0, 0, 0>> >> \o (IF c.sizes[d] > 2 THEN << <<"M", d, 1, 0, 0>> >> ELSE <<>>)])
EdgeGroups(c) ==
  SeqCat([q \in 1..Len(c.edge) |->
     Filter(<< <<"E", q, 0, 0, 0>>, <<"E", q, 0, 1, 0>>, <<"E", q, 1, 0, 0>>, <<"E", q, 1, 1, 0>> >>,
            LAMBDA k : k[3] < c.sizes[c.edge[q][1]] - 1 /\ k[4] < c.sizes[c.edge[q][2]] - 1)])
TrapGroups(c) ==
  SeqCat([q \in 1..Len(c.trap) |->
     Filter(<< <<"T", q, 0, 0, 0>>, <<"T", q, 1, 0, 0>> >>, LAMBDA k : k[3] < c.sizes[c.trap[q][2]] - 1)])
Cube == << <<0,0,0>>, <<0,0,1>>, <<0,1,0>>, <<0,1,1>>, <<1,0,0>>, <<1,0,1>>, <<1,1,0>>, <<1,1,1>> >>
TriGroups(c, kind, list) ==
  SeqCat([q \in 1..Len(list) |->
     Filter([n \in 1..8 |-> <<kind, q, Cube[n][1], Cube[n][2], Cube[n][3]>>],
            LAMBDA k : k[3] < c.sizes[list[q][1]] - 1 /\ k[4] < c.sizes[list[q][2]] - 1)])
RDomGroups(c) ==
  SeqCat([q \in 1..Len(c.rdom) |->
     LET n1 == c.sizes[c.rdom[q][1]]  n2 == c.sizes[c.rdom[q][2]]
     IN [n \in 1..(n1 * n2) |-> <<"R", q, (n - 1) \div n2, (n - 1) % n2, 0>>]])
\* joint unimodality: vertices of the constrained sub-lattice in itertools.product order, then offsets
RECURSIVE Prod(_)
Prod(ranges) ==       \* all tuples, lexicographic (first fastest last) as itertools.product
  IF ranges = <<>> THEN << <<>> >>
  ELSE LET rest == Prod(Tail(ranges))
       IN SeqCat([a \in 1..Len(Head(ranges)) |-> [b \in 1..Len(rest) |-> <<Head(ranges)[a]>> \o rest[b]]])
JUniGroups(c) ==
  SeqCat([q \in 1..Len(c.juni) |->
     LET u == c.juni[q]
         vs == Prod([k \in 1..Len(u[1]) |-> [a \in 1..c.sizes[u[1][k]] |-> a - 1]])
         os == Prod([k \in 1..Len(u[1]) |-> <<-1, 1>>])
         all == SeqCat([a \in 1..Len(vs) |-> [b \in 1..Len(os) |-> <<"U", q, vs[a], os[b], 0>>]])
     IN Filter(all, LAMBDA k : JPlane(c, u, k[3], k[4]) # <<>>)])

HasDykstra(c) ==      \* LatticeConstraints.__call__ guard and project_by_dykstra's early exits
  /\ ((\E d \in Dims(c) : c.mono[d] # 0 \/ c.uni[d] # 0) \/ c.jmono # <<>> \/ c.juni # <<>>)
  /\ c.iters > 0
DykGroups(c) == MonoGroups(c) \o EdgeGroups(c) \o TrapGroups(c) \o TriGroups(c, "D", c.mdom)
                \o RDomGroups(c) \o TriGroups(c, "J", c.jmono) \o JUniGroups(c)

GroupOp(c, key, x) == TLCEval(
  CASE key[1] = "M" -> PartialMono(c, x, key[2], key[3])
    [] key[1] = "E" -> PartialEdge(c, x, c.edge[key[2]], <<key[3], key[4]>>)
    [] key[1] = "T" -> PartialTrap(c, x, c.trap[key[2]], key[3])
    [] key[1] = "D" -> PartialMDom(c, x, c.mdom[key[2]], <<key[3], key[4], key[5]>>)
    [] key[1] = "R" -> PartialRDom(c, x, c.rdom[key[2]], <<key[3], key[4]>>)
    [] key[1] = "J" -> PartialJMono(c, x, c.jmono[key[2]], <<key[3], key[4], key[5]>>)
    [] key[1] = "U" -> PartialJUni(c, x, c.juni[key[2]], key[3], key[4]))

-----------------------------------------------------------------------------
(* finalize_constraints passes (the _approximately_project functions)                                      *)
RECURSIVE CumMax(_, _, _, _)
CumMax(c, x, d, v) == IF v[d] = 0 THEN x[v] ELSE RMax(x[v], CumMax(c, x, d, With(v, d, v[d] - 1)))
RECURSIVE CumMin(_, _, _, _)
CumMin(c, x, d, v) == IF v[d] = c.sizes[d] - 1 THEN x[v] ELSE RMin(x[v], CumMin(c, x, d, With(v, d, v[d] + 1)))
RECURSIVE FoldMonoDims(_, _, _, _)
FoldMonoDims(c, Op(_, _, _, _), x, d) ==
  IF d > Rank(c) THEN x
  ELSE IF c.mono[d] = 0 THEN FoldMonoDims(c, Op, x, d + 1)
  ELSE FoldMonoDims(c, Op, TLCEval([v \in Vertices(c) |-> Op(c, x, d, v)]), d + 1)
FinMono(c, x) == LET mx == FoldMonoDims(c, CumMax, x, 1)
                     half == TLCEval([v \in Vertices(c) |-> RHalf(RAdd(x[v], mx[v]))])
                 IN FoldMonoDims(c, CumMin, half, 1)

\* all vertices that differ from o only in dimensions other than m and cd: the code's
\* reduce_max over "everything behind" a grid position (one unit)
Behind(c, m, cd) == {v \in Vertices(c) : v[m] = 0 /\ v[cd] = 0}
MaxOver0(S, f(_)) == RMax(MaxOver(S, f), Zero)

SquaresUp(c, m, cd) == LET RECURSIVE P(_, _)
                           P(i, j) == IF i > c.sizes[m] - 2 THEN <<>>
                                      ELSE IF j > c.sizes[cd] - 2 THEN P(i + 1, 0)
                                      ELSE << <<i, j>> >> \o P(i, j + 1)
                       IN P(0, 0)
Rev(s) == [i \in 1..Len(s) |-> s[Len(s) + 1 - i]]
RECURSIVE EdgeFold(_, _, _, _, _, _)
EdgeFold(c, x, m, cd, dir, ps) ==
  IF ps = <<>> THEN x ELSE
  LET i == Head(ps)[1]  j == Head(ps)[2]
      L(o, a, b) == x[With2(o, m, a, cd, b)]
      dUp(o) == RSub(RSub(L(o, i + 1, j), L(o, i, j)), RSub(L(o, i + 1, j + 1), L(o, i, j + 1)))
      dDn(o) == RSub(RSub(L(o, i + 1, j + 1), L(o, i, j + 1)), RSub(L(o, i + 1, j), L(o, i, j)))
      mv == IF dir > 0 THEN MaxOver0(Behind(c, m, cd), dUp) ELSE MaxOver0(Behind(c, m, cd), dDn)
      nx == IF dir > 0 THEN [v \in Vertices(c) |-> IF v[m] = i + 1 /\ v[cd] = j + 1 THEN RAdd(x[v], mv) ELSE x[v]]
            ELSE [v \in Vertices(c) |-> IF v[m] = i /\ v[cd] = j THEN RSub(x[v], mv) ELSE x[v]]
  IN EdgeFold(c, TLCEval(nx), m, cd, dir, Tail(ps))
FinEdge(c, x, t) == EdgeFold(c, x, t[1], t[2], t[3],
                             IF t[3] > 0 THEN SquaresUp(c, t[1], t[2]) ELSE Rev(SquaresUp(c, t[1], t[2])))

InSeq(e, s) == \E q \in 1..Len(s) : s[q] = e
RECURSIVE TrapFold(_, _, _, _, _, _, _)
TrapFold(c, x, t, j, lu, ru, anyE) ==
  LET m == t[1]  cd == t[2]  dir == t[3]  mm == c.sizes[m] - 1 IN
  IF j > c.sizes[cd] - 2 THEN x ELSE
  LET same == InSeq(t, c.edge)
      cj(q) == Rv(c, cd, dir, q)
      L(o, a, b) == x[With2(o, m, a, cd, cj(b))]
      ld(o) == RSub(L(o, 0, j + 1), L(o, 0, j))
      lupd == IF anyE /\ same THEN RMax(MaxOver0(Behind(c, m, cd), ld), lu)
              ELSE MaxOver0(Behind(c, m, cd), ld)
      x1 == TLCEval(
            IF anyE THEN [v \in Vertices(c) |-> IF v[m] = 0 /\ v[cd] = cj(j + 1) THEN RSub(x[v], lupd) ELSE x[v]]
            ELSE [v \in Vertices(c) |-> IF v[m] = 0 /\ v[cd] = cj(j + 1)
                                        THEN RSub(x[v], RMax(ld(With2(v, m, 0, cd, 0)), Zero)) ELSE x[v]])
      L1(o, a, b) == x1[With2(o, m, a, cd, cj(b))]
      rd(o) == RSub(L1(o, mm, j), L1(o, mm, j + 1))
      rupd == IF anyE /\ same THEN RMax(MaxOver0(Behind(c, m, cd), rd), ru)
              ELSE MaxOver0(Behind(c, m, cd), rd)
      x2 == IF anyE THEN [v \in Vertices(c) |-> IF v[m] = mm /\ v[cd] = cj(j + 1) THEN RAdd(x1[v], rupd) ELSE x1[v]]
            ELSE [v \in Vertices(c) |-> IF v[m] = mm /\ v[cd] = cj(j + 1)
                                        THEN RAdd(x1[v], RMax(rd(With2(v, m, 0, cd, 0)), Zero)) ELSE x1[v]]
  IN TrapFold(c, TLCEval(x2), t, j + 1, lupd, rupd, anyE)
FinTrap(c, x, t) == TrapFold(c, x, t, 0, Zero, Zero, c.edge # <<>>)

KMax(c, x) == MaxOver(Vertices(c), LAMBDA v : x[v])
KMin(c, x) == MinOver(Vertices(c), LAMBDA v : x[v])
FinBounds(c, x) ==
  IF c.hasMin /\ ~c.hasMax THEN
    LET sh == RMax(RSub(c.omin, KMin(c, x)), Zero) IN [v \in Vertices(c) |-> RAdd(x[v], sh)]
  ELSE IF c.hasMax /\ ~c.hasMin THEN
    LET sh == RMax(RSub(KMax(c, x), c.omax), Zero) IN [v \in Vertices(c) |-> RSub(x[v], sh)]
  ELSE IF c.hasMax /\ c.hasMin THEN
    LET maxv == RMax(RSub(KMax(c, x), c.omax), Zero)
        minv == RMax(RSub(c.omin, KMin(c, x)), Zero)
        scale == RDiv(RSub(c.omax, c.omin), RSub(RAdd(c.omax, maxv), RSub(c.omin, minv)))
    IN [v \in Vertices(c) |-> RAdd(RMul(RAdd(x[v], RSub(minv, c.omin)), scale), c.omin)]
  ELSE x
Clip(c, x) == [v \in Vertices(c) |->
                 LET a == IF c.hasMin THEN RMax(x[v], c.omin) ELSE x[v]
                 IN IF c.hasMax THEN RMin(a, c.omax) ELSE a]

AnyMono(c) == \E d \in Dims(c) : c.mono[d] # 0
HasTrust(c) == c.edge # <<>> \/ c.trap # <<>>
\* schedule of finalize_constraints (returns the kernel unchanged without monotonic dimensions)
FinSteps(c) ==
  IF ~AnyMono(c) THEN <<>>
  ELSE << <<"FM", 0>> >>
       \o (IF HasTrust(c) THEN [q \in 1..Len(c.edge) |-> <<"FE", q>>] \o [q \in 1..Len(c.trap) |-> <<"FT", q>>]
                               \o << <<"FB", 0>> >>
           ELSE <<>>)
FinOp(c, s, x) == TLCEval(
  CASE s[1] = "FM" -> FinMono(c, x)
    [] s[1] = "FE" -> FinEdge(c, x, c.edge[s[2]])
    [] s[1] = "FT" -> FinTrap(c, x, c.trap[s[2]])
    [] s[1] = "FB" -> FinBounds(c, x)
    [] s[1] = "CL" -> Clip(c, x))

\* LatticeConstraints.__call__: Dykstra sweeps, finalize when strict, then the clip
GuardOn(c) == (\E d \in Dims(c) : c.mono[d] # 0 \/ c.uni[d] # 0) \/ c.jmono # <<>> \/ c.juni # <<>>
TailSteps(c) == (IF GuardOn(c) /\ c.strict THEN FinSteps(c) ELSE <<>>) \o << <<"CL", 0>> >>

RECURSIVE DykRun(_, _, _, _, _)
DykRun(c, x, l, gs, n) ==      \* n = remaining group steps, cycling through gs
  IF n = 0 THEN x
  ELSE LET total == c.iters * Len(gs)
           pos == ((total - n) % Len(gs)) + 1
           r == KMinus(x, l[pos])
           p == GroupOp(c, gs[pos], r)
       IN DykRun(c, p, [l EXCEPT ![pos] = KMinus(p, r)], gs, n - 1)
Dykstra(c, x) == LET gs == DykGroups(c) IN
                 IF ~HasDykstra(c) \/ gs = <<>> THEN x
                 ELSE DykRun(c, x, [g \in 1..Len(gs) |-> KZero(c)], gs, c.iters * Len(gs))
RECURSIVE ApplySteps(_, _, _)
ApplySteps(c, ss, x) == IF ss = <<>> THEN x ELSE ApplySteps(c, Tail(ss), FinOp(c, Head(ss), x))
Finalize(c, x) == ApplySteps(c, FinSteps(c), x)              \* lattice_lib.finalize_constraints
Constrain(c, x) == ApplySteps(c, TailSteps(c), Dykstra(c, x))  \* LatticeConstraints.__call__

-----------------------------------------------------------------------------
(* feasibility of each constraint family (tol = 0 on the model)                               *)
Leq(a, b, tol) == RLeq(a, RAdd(b, tol))
Up(c, v, d) == With(v, d, v[d] + 1)
MonoOK(c, x, tol) == \A d \in Dims(c) : c.mono[d] = 1 =>
                       \A v \in Vertices(c) : v[d] < c.sizes[d] - 1 => Leq(x[v], x[Up(c, v, d)], tol)
UniOK(c, x, tol) == \A d \in Dims(c) : c.uni[d] # 0 =>
                      \A v \in Vertices(c) : v[d] < c.sizes[d] - 1 =>
                         IF PairDir(c, d, v[d]) = 1 THEN Leq(x[v], x[Up(c, v, d)], tol)
                         ELSE Leq(x[Up(c, v, d)], x[v], tol)
EdgeOK(c, x, tol) ==
  \A q \in 1..Len(c.edge) : LET m == c.edge[q][1]  cd == c.edge[q][2]  dir == c.edge[q][3] IN
    \A v \in Vertices(c) : (v[m] < c.sizes[m] - 1 /\ v[cd] < c.sizes[cd] - 1) =>
      LET hi == RSub(x[With2(v, m, v[m] + 1, cd, v[cd] + 1)], x[With2(v, m, v[m], cd, v[cd] + 1)])
          lo == RSub(x[With(v, m, v[m] + 1)], x[v])
      IN IF dir > 0 THEN Leq(lo, hi, tol) ELSE Leq(hi, lo, tol)
TrapOKOne(c, x, t, tol) ==
  LET m == t[1]  cd == t[2]  dir == t[3] IN
    \A v \in Vertices(c) : (v[cd] < c.sizes[cd] - 1) =>
      LET up == With(v, cd, v[cd] + 1) IN
      /\ (v[m] = 0 => IF dir > 0 THEN Leq(x[up], x[v], tol) ELSE Leq(x[v], x[up], tol))
      /\ (v[m] = c.sizes[m] - 1 => IF dir > 0 THEN Leq(x[v], x[up], tol) ELSE Leq(x[up], x[v], tol))
TrapOK(c, x, tol) == \A q \in 1..Len(c.trap) : TrapOKOne(c, x, c.trap[q], tol)
\* the documented exception: several trapezoid trusts share a conditional feature while
\* Edgeworth trusts are present
TrapWaived(c) == /\ c.edge # <<>>
                 /\ \E a, b \in 1..Len(c.trap) : a # b /\ c.trap[a][2] = c.trap[b][2]
BoundsOK(c, x, tol) == \A v \in Vertices(c) : /\ (c.hasMin => Leq(c.omin, x[v], tol))
                                              /\ (c.hasMax => Leq(x[v], c.omax, tol))
MDomOK(c, x, tol) ==
  \A q \in 1..Len(c.mdom) : LET p == c.mdom[q][1]  w == c.mdom[q][2] IN
    \A v \in Vertices(c) : (v[p] < c.sizes[p] - 1 /\ v[w] < c.sizes[w] - 1) =>
      LET a == x[v]  d == x[With2(v, p, v[p] + 1, w, v[w] + 1)]
          dom == x[With(v, p, v[p] + 1)]  wk == x[With(v, w, v[w] + 1)]
      IN \* slope along the dominant dimension >= slope along the weak one, on both triangles
         /\ Leq(RAdd(a, d), RMul(R(2), dom), RMul(R(2), tol))
         /\ Leq(RMul(R(2), wk), RAdd(a, d), RMul(R(2), tol))
JMonoOK(c, x, tol) ==
  \A q \in 1..Len(c.jmono) : LET p == c.jmono[q][1]  w == c.jmono[q][2] IN
    \A v \in Vertices(c) : (v[p] < c.sizes[p] - 1 /\ v[w] < c.sizes[w] - 1) =>
      LET a == x[v]  d == x[With2(v, p, v[p] + 1, w, v[w] + 1)]
          b1 == x[With(v, p, v[p] + 1)]  b2 == x[With(v, w, v[w] + 1)]
      IN /\ Leq(RAdd(b1, b2), RMul(R(2), d), RMul(R(2), tol))
         /\ Leq(RMul(R(2), a), RAdd(b1, b2), RMul(R(2), tol))
RDomOK(c, x, tol) ==
  \A q \in 1..Len(c.rdom) : LET p == c.rdom[q][1]  w == c.rdom[q][2] IN
    \A v \in Vertices(c) :
      LET wr == RSub(x[With(v, w, c.sizes[w] - 1)], x[With(v, w, 0)])
          dr == RSub(x[With(v, p, c.sizes[p] - 1)], x[With(v, p, 0)])
      IN Leq(wr, dr, RMul(R(2), tol))
JUniOK(c, x, tol) ==
  c.juni = <<>> \/
  LET jg == JUniGroups(c) IN
  \A q \in 1..Len(jg) :
    LET key == jg[q]  u == c.juni[key[2]]
        plane == JPlane(c, u, key[3], key[4])
    IN \A o \in {v \in Vertices(c) : JPos(u, v) = key[3]} :
         LET viol == JViolation(c, x, u, plane, o)
         IN IF u[2] = "valley" THEN Leq(Zero, viol, RMul(R(4), tol)) ELSE Leq(viol, Zero, RMul(R(4), tol))

\* what C01 promises for the strict constraint / finalize
StrictOK(c, x, tol) == /\ MonoOK(c, x, tol) /\ EdgeOK(c, x, tol) /\ BoundsOK(c, x, tol)
                       /\ (TrapWaived(c) \/ TrapOK(c, x, tol))
FeasibleAll(c, x) == /\ MonoOK(c, x, Zero) /\ UniOK(c, x, Zero) /\ EdgeOK(c, x, Zero) /\ TrapOK(c, x, Zero)
                     /\ MDomOK(c, x, Zero) /\ RDomOK(c, x, Zero) /\ JMonoOK(c, x, Zero) /\ JUniOK(c, x, Zero)
                     /\ BoundsOK(c, x, Zero)
=============================================================================
