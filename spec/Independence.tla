----------------------------- MODULE Independence -----------------------------
(* C09 at design level.  The per-unit (per-example) function is left uninterpreted: any function *)
(* F from a small set of columns to values.  A multi-unit operation is specified as the          *)
(* pointwise lift of F; the model states what the property says about it: column by column equal  *)
(* to the single-column result, equivariant under permutations, stable under sub-selection.       *)
(* All algorithm specs (PwlOps, LatticeOps, PartialOrderOps, KflOps) are written for one unit,    *)
(* i.e. they ARE such an F; what must be established on the real code is that its multi-unit /    *)
(* batched calls are this lift - that is the trace spec TraceIndependence.                         *)
EXTENDS Integers, Sequences, FiniteSets, TLC
CONSTANTS Cols, Vals, MaxUnits
VARIABLES F, cols, outs
vars == <<F, cols, outs>>
Lift(f, cs) == [u \in 1..Len(cs) |-> f[cs[u]]]
Init == /\ F \in [Cols -> Vals]
        /\ cols \in UNION {[1..n -> Cols] : n \in 1..MaxUnits}
        /\ outs = Lift(F, cols)
Perms(n) == {p \in [1..n -> 1..n] : \A a, b \in 1..n : a # b => p[a] # p[b]}
Permute == \E p \in Perms(Len(cols)) :
             /\ cols' = [u \in 1..Len(cols) |-> cols[p[u]]]
             /\ outs' = Lift(F, cols') /\ UNCHANGED F
Drop == /\ Len(cols) > 1
        /\ \E k \in 1..Len(cols) :
             /\ cols' = [u \in 1..(Len(cols) - 1) |-> IF u < k THEN cols[u] ELSE cols[u + 1]]
             /\ outs' = Lift(F, cols') /\ UNCHANGED F
Next == Permute \/ Drop
ColumnWise == \A u \in 1..Len(cols) : outs[u] = F[cols[u]]
Equivariant == [][\A p \in Perms(Len(cols)) :
                    cols' = [u \in 1..Len(cols) |-> cols[p[u]]] => outs' = [u \in 1..Len(cols) |-> outs[p[u]]]]_vars
=============================================================================
