------------------------------ MODULE KeypointOps ------------------------------
(* premade_lib.compute_keypoints and _weighted_quantile as pure operators over integer data.       *)
(* in = [vals (seq of ints), hasW, w (seq of ints), hasMin, cmin, hasMax, cmax, hasDef, def, k,      *)
(*       mode \in {"quantiles", "uniform"}, red \in {"mean", "sum"}]                                  *)
EXTENDS Integers, Sequences, FiniteSets, Rat, TLC
SeqSet(s) == {s[i] : i \in 1..Len(s)}
\* ---- preprocessing: drop default values, clip and append the clip bounds with weight 0 ------------
Kept(in) == {i \in 1..Len(in.vals) : ~(in.hasDef /\ in.vals[i] = in.def)}
ClipV(in, v) == LET a == IF in.hasMin /\ v < in.cmin THEN in.cmin ELSE v IN IF in.hasMax /\ a > in.cmax THEN in.cmax ELSE a
\* the multiset of (value, weight) pairs after clipping, as a set of <<position, value, weight>>
\* note: clip_max is applied after clip_min and also to the appended clip_min sentinel
Items(in) ==
  LET base == {<<i, ClipV(in, in.vals[i]), IF in.hasW THEN in.w[i] ELSE 1>> : i \in Kept(in)}
      smin == IF in.hasMin THEN {<<Len(in.vals) + 1, IF in.hasMax /\ in.cmin > in.cmax THEN in.cmax ELSE in.cmin, 0>>} ELSE {}
      smax == IF in.hasMax THEN {<<Len(in.vals) + 2, in.cmax, 0>>} ELSE {}
  IN base \cup smin \cup smax
Distinct(in) == {it[2] : it \in Items(in)}
RECURSIVE SortSet(_)
SortSet(S) == IF S = {} THEN <<>> ELSE LET m == CHOOSE x \in S : \A y \in S : x <= y IN <<m>> \o SortSet(S \ {m})
Sorted(in) == SortSet(Distinct(in))
\* merged weight of a distinct value: sum or mean of the weights of its occurrences
SumW(in, v) == LET S == {it \in Items(in) : it[2] = v}
                   RECURSIVE Sm(_) Sm(T) == IF T = {} THEN 0 ELSE LET e == CHOOSE e \in T : TRUE IN e[3] + Sm(T \ {e})
               IN Sm(S)
CountV(in, v) == Cardinality({it \in Items(in) : it[2] = v})
MergedW(in, v) == IF in.red = "mean" THEN Norm(SumW(in, v), CountV(in, v)) ELSE R(SumW(in, v))
\* ---- quantile indices ---------------------------------------------------------------------------
Quantile(in, j) == Norm(j - 1, in.k - 1)                      \* np.linspace(0, 1, k)[j]
\* unweighted: np.quantile(..., 'nearest'): an index within 1/2 of q * (n - 1); ties are left open
NearestIdx(n, q) == {i \in 0..(n - 1) : RLeq(RAbs(RSub(R(i), RMul(q, R(n - 1)))), <<1, 2>>)}
\* weighted: midpoint CDF, np.interp, np.rint (half to even)
RoundHE(q) == LET fl == RFloor(q)  fr == RSub(q, R(fl)) IN
              IF RLt(fr, <<1, 2>>) THEN fl ELSE IF RLt(<<1, 2>>, fr) THEN fl + 1 ELSE IF fl % 2 = 0 THEN fl ELSE fl + 1
RECURSIVE CumW(_, _, _)
CumW(in, sv, i) == IF i = 0 THEN Zero ELSE RAdd(CumW(in, sv, i - 1), MergedW(in, sv[i]))
WQ(in, sv, i) == RDiv(RSub(CumW(in, sv, i), RHalf(MergedW(in, sv[i]))), CumW(in, sv, Len(sv)))
\* np.interp(x, xp, fp) with fp = 0..n-1 (xp non-decreasing): clamp outside, linear inside
Interp(in, sv, x) ==
  LET n == Len(sv) IN
  IF RLeq(x, WQ(in, sv, 1)) THEN Zero
  ELSE IF RLeq(WQ(in, sv, n), x) THEN R(n - 1)
  ELSE LET i == CHOOSE i \in 1..(n - 1) : RLeq(WQ(in, sv, i), x) /\ RLt(x, WQ(in, sv, i + 1))
       IN RAdd(R(i - 1), RDiv(RSub(x, WQ(in, sv, i)), RSub(WQ(in, sv, i + 1), WQ(in, sv, i))))
RawIdx(in, sv) == [j \in 1..in.k |-> RoundHE(Interp(in, sv, Quantile(in, j)))]
\* repair of repeated indices: the first use of an index keeps it; a later duplicate takes the nearest
\* unused index (delta = 1, 2, ..; -delta before +delta)
RECURSIVE Candidate(_, _, _, _)
Candidate(idx, used, n, d) ==
  IF d >= n THEN idx
  ELSE IF idx - d >= 0 /\ idx - d \notin used THEN idx - d
  ELSE IF idx + d < n /\ idx + d \notin used THEN idx + d
  ELSE Candidate(idx, used, n, d + 1)
RECURSIVE Repair(_, _, _, _)
Repair(q, used, n, i) ==
  IF i > Len(q) THEN q
  ELSE IF \E j \in 1..(i - 1) : q[j] = q[i] /\ \A m \in 1..(j - 1) : q[m] # q[i]      \* not a first use (w.r.t. the ORIGINAL array)
       THEN LET cnd == Candidate(q[i], used, n, 1)
            IN Repair([q EXCEPT ![i] = cnd], used \cup {cnd}, n, i + 1)
       ELSE Repair(q, used, n, i + 1)
\* the code decides "first use" on the original indices; the repaired value of an earlier entry does not matter
RECURSIVE RepairO(_, _, _, _, _)
RepairO(orig, q, used, n, i) ==
  IF i > Len(q) THEN q
  ELSE IF \E j \in 1..(i - 1) : orig[j] = orig[i]
       THEN LET cnd == Candidate(q[i], used, n, 1)
            IN RepairO(orig, [q EXCEPT ![i] = cnd], used \cup (IF cnd = q[i] THEN {} ELSE {cnd}), n, i + 1)
       ELSE RepairO(orig, q, used, n, i + 1)
WeightedFrom(in, sv, raw) ==
  LET n == Len(sv)
      rep == RepairO(raw, raw, SeqSet(raw), n, 1)
  IN [j \in 1..in.k |-> R(sv[SortSet(SeqSet(rep))[j] + 1])]
WeightedKeypoints(in) == LET sv == Sorted(in) IN WeightedFrom(in, sv, RawIdx(in, sv))
\* np.rint acts on a float: where the exact interpolated index is a half-integer, the float may fall on either side
\* (e.g. values 0..3, weights 2,1,1,2, quantile 1/2: exactly 1.5, computed as 1.4999999999999998). Both roundings are
\* behaviours of the model; everywhere else the rounding is determined.
RoundSet(q) == LET fl == RFloor(q) IN IF RSub(q, R(fl)) = <<1, 2>> THEN {fl, fl + 1} ELSE {RoundHE(q)}
WeightedResults(in) ==
  LET sv == Sorted(in)
      ch == [j \in 1..in.k |-> RoundSet(Interp(in, sv, Quantile(in, j)))]
  IN {WeightedFrom(in, sv, raw) : raw \in {r \in [1..in.k -> 0..(Len(sv) - 1)] : \A j \in 1..in.k : r[j] \in ch[j]}}
\* ---- the possible results (a set, because of the open tie rule of the unweighted quantile) ------------
Uniform(in) == LET sv == Sorted(in) IN
               [j \in 1..in.k |-> RAdd(R(sv[1]), RMul(Norm(j - 1, in.k - 1), R(sv[Len(sv)] - sv[1])))]
Results(in) ==
  LET sv == Sorted(in)  n == Len(sv) IN
  IF in.mode = "uniform" THEN {Uniform(in)}
  ELSE IF n < in.k THEN {[j \in 1..n |-> R(sv[j])]}
  ELSE IF in.hasW THEN (IF CumW(in, sv, n) = Zero THEN {} ELSE WeightedResults(in))
  ELSE {[j \in 1..in.k |-> R(sv[c[j] + 1])] : c \in {c \in [1..in.k -> 0..(n - 1)] : \A j \in 1..in.k : c[j] \in NearestIdx(n, Quantile(in, j))}}
\* ---- contract of C18 on a result kp (sequence of rationals) -------------------------------------------
NumDistinct(in) == Cardinality(Distinct(in))
KeypointsOK(in, kp, tol) ==
  LET sv == Sorted(in)  n == Len(sv)  lo == R(sv[1])  hi == R(sv[n]) IN
  /\ (n >= 2 => \A j \in 1..(Len(kp) - 1) : RLt(kp[j], kp[j + 1]))
  /\ \A j \in 1..Len(kp) : RLeq(RSub(lo, tol), kp[j]) /\ RLeq(kp[j], RAdd(hi, tol))
  /\ (Len(kp) >= 1 => RNear(kp[1], lo, tol) /\ RNear(kp[Len(kp)], hi, tol))
  /\ Len(kp) = (IF in.mode = "uniform" \/ n >= in.k THEN in.k ELSE n)
=============================================================================
