------------------------------ MODULE ConfigSpace ------------------------------
(* C16: the hyperparameter spaces of the layers.  For each layer kind:                               *)
(*   Valid(c)       transcription of the library's verify_hyperparameters / constructor rules         *)
(*   MustReject(c)  the combinations the property statement says are rejected with a ValueError        *)
(* and the contract on an observed outcome: a configuration is either rejected when constructed /       *)
(* built, or accepted and then projection and evaluation neither raise nor return non-finite values.     *)
(* Dimension indices are 0-based as in the library's arguments.                                         *)
EXTENDS Integers, Sequences, FiniteSets, TLC
Idx(s) == 0..(Len(s) - 1)
At(s, i) == s[i + 1]
\* ---- Lattice: c = [kind |-> "lattice", sizes, mono, uni, edge, trap (seqs of <<main, cond, dir>>), mdom, rdom,
\*                    jmono (seqs of <<a, b>>), juni (seq of <<dims, dir>>), hasMin, omin, hasMax, omax (ints)]
Trusts(c) == c.edge \o c.trap
InRange(c, d) == d >= 0 /\ d < Len(c.sizes)
LatValid(c) ==
  /\ \A i \in Idx(c.sizes) : At(c.sizes, i) >= 2
  /\ Len(c.mono) = Len(c.sizes) /\ Len(c.uni) = Len(c.sizes)
  /\ \A i \in Idx(c.sizes) : (At(c.uni, i) # 0 => At(c.sizes, i) >= 3) /\ ~(At(c.mono, i) # 0 /\ At(c.uni, i) # 0)
  /\ \A n \in 1..Len(Trusts(c)) : LET t == Trusts(c)[n] IN InRange(c, t[1]) /\ InRange(c, t[2]) /\ At(c.mono, t[1]) = 1
  /\ \A n, m \in 1..Len(Trusts(c)) : LET t == Trusts(c)[n]  u == Trusts(c)[m] IN
        /\ t[1] # u[2]
        /\ ((t[1] = u[1] /\ t[2] = u[2]) => t[3] = u[3])
  /\ \A n \in 1..Len(c.mdom) : At(c.mono, c.mdom[n][1]) = 1 /\ At(c.mono, c.mdom[n][2]) = 1
  /\ \A n, m \in 1..Len(c.mdom) : ~(c.mdom[n][1] = c.mdom[m][2] /\ c.mdom[n][2] = c.mdom[m][1])
  /\ \A n \in 1..Len(c.rdom) : At(c.mono, c.rdom[n][1]) = 1 /\ At(c.mono, c.rdom[n][2]) = 1
  /\ \A n, m \in 1..Len(c.rdom) : ~(c.rdom[n][1] = c.rdom[m][2] /\ c.rdom[n][2] = c.rdom[m][1])
  /\ \A n \in 1..Len(c.juni) : \A k \in 1..Len(c.juni[n][1]) :
        LET d == c.juni[n][1][k] IN At(c.sizes, d) >= 3 /\ At(c.mono, d) = 0
  /\ ((c.hasMin /\ c.hasMax) => c.omin < c.omax)
LatMustReject(c) ==
  \/ \E i \in Idx(c.sizes) : At(c.sizes, i) < 2
  \/ \E i \in Idx(c.sizes) : At(c.mono, i) # 0 /\ At(c.uni, i) # 0
  \/ \E n \in 1..Len(Trusts(c)) : At(c.mono, Trusts(c)[n][1]) # 1
  \/ \E n, m \in 1..Len(Trusts(c)) : Trusts(c)[n][1] = Trusts(c)[m][2]
  \/ \E n \in 1..Len(c.mdom) : At(c.mono, c.mdom[n][1]) # 1 \/ At(c.mono, c.mdom[n][2]) # 1
  \/ \E n \in 1..Len(c.rdom) : At(c.mono, c.rdom[n][1]) # 1 \/ At(c.mono, c.rdom[n][2]) # 1
  \/ (c.hasMin /\ c.hasMax /\ c.omin > c.omax)
\* ---- PWLCalibration: c = [kind |-> "pwl", kp (seq of ints), mono, conv \in -1..1, cyclic, hasMin, omin, hasMax, omax,
\*                            clampMin, clampMax]
Sorted(s) == \A i \in 1..(Len(s) - 1) : s[i] < s[i + 1]
PwlValid(c) ==
  /\ Len(c.kp) >= 2 /\ Sorted(c.kp)
  /\ ((c.hasMin /\ c.hasMax) => c.omin <= c.omax)
  /\ ~(c.cyclic /\ (c.mono # 0 \/ c.conv # 0))
  /\ (c.cyclic => Len(c.kp) >= 3)                      \* the kernel needs at least two rows
  \* clamping is implemented for monotonic calibrators only (rejected at construction since the fix: commit)
  /\ ~(c.mono = 0 /\ ((c.clampMin /\ c.hasMin) \/ (c.clampMax /\ c.hasMax)))
  \* learned interior keypoints cannot be combined with convexity
  /\ ~(c.learned /\ c.conv # 0)
PwlMustReject(c) == \/ ~Sorted(c.kp) \/ Len(c.kp) < 2 \/ (c.cyclic /\ c.mono # 0)
                    \/ (c.hasMin /\ c.hasMax /\ c.omin > c.omax)
\* ---- Linear: c = [kind |-> "linear", mono, mdom, rdom, hasBounds (seq), lo, hi (seqs of ints), norm]
LinValid(c) ==
  /\ \A i \in Idx(c.mono) : At(c.hasBounds, i) => At(c.lo, i) <= At(c.hi, i)
  /\ \A n \in 1..Len(c.mdom) : At(c.mono, c.mdom[n][1]) = 1 /\ At(c.mono, c.mdom[n][2]) = 1
  /\ \A n, m \in 1..Len(c.mdom) : ~(c.mdom[n][1] = c.mdom[m][2] /\ c.mdom[n][2] = c.mdom[m][1])
  /\ \A n \in 1..Len(c.rdom) : LET a == c.rdom[n][1]  b == c.rdom[n][2] IN
        /\ At(c.mono, a) # 0 /\ At(c.mono, a) = At(c.mono, b) /\ At(c.hasBounds, a) /\ At(c.hasBounds, b)
        /\ At(c.lo, a) # At(c.hi, a) /\ At(c.lo, b) # At(c.hi, b)      \* non-empty input ranges (fix: commit)
  /\ \A n, m \in 1..Len(c.rdom) : ~(c.rdom[n][1] = c.rdom[m][2] /\ c.rdom[n][2] = c.rdom[m][1])
  /\ \A n \in 1..Len(c.mdom), m \in 1..Len(c.rdom) : {c.mdom[n][1], c.mdom[n][2]} \cap {c.rdom[m][1], c.rdom[m][2]} = {}
LinMustReject(c) ==
  \/ \E n \in 1..Len(c.mdom) : At(c.mono, c.mdom[n][1]) # 1 \/ At(c.mono, c.mdom[n][2]) # 1
  \/ \E n \in 1..Len(c.rdom) : At(c.mono, c.rdom[n][1]) = 0 \/ At(c.mono, c.rdom[n][2]) = 0
  \/ \E i \in Idx(c.mono) : At(c.hasBounds, i) /\ At(c.lo, i) > At(c.hi, i)
\* ---- CategoricalCalibration: c = [kind |-> "cat", nb, pairs, hasMin, omin, hasMax, omax]
RECURSIVE CatReach(_, _, _)
CatReach(ps, S, n) == IF n = 0 THEN S ELSE CatReach(ps, S \cup {ps[m][2] : m \in {m \in 1..Len(ps) : ps[m][1] \in S}}, n - 1)
CatAcyclic(ps) == \A n \in 1..Len(ps) : ps[n][1] \notin CatReach(ps, {ps[n][2]}, Len(ps))
CatValid(c) == /\ CatAcyclic(c.pairs)                    \* circular pairs are rejected at construction (fix: commit)
               /\ \A n \in 1..Len(c.pairs) : c.pairs[n][1] >= 0 /\ c.pairs[n][2] >= 0 /\ c.pairs[n][1] < c.nb /\ c.pairs[n][2] < c.nb
               /\ ((c.hasMin /\ c.hasMax) => c.omin <= c.omax)
CatMustReject(c) == \/ (c.hasMin /\ c.hasMax /\ c.omin > c.omax)
                    \/ \E n \in 1..Len(c.pairs) : c.pairs[n][1] >= c.nb \/ c.pairs[n][2] >= c.nb
\* ---- KroneckerFactoredLattice: c = [kind |-> "kfl", L, dims, mono, hasMin, omin, hasMax, omax]
KflValid(c) == c.L >= 2 /\ Len(c.mono) = c.dims /\ ((c.hasMin /\ c.hasMax) => c.omin < c.omax)
KflMustReject(c) == c.L < 2 \/ (c.hasMin /\ c.hasMax /\ c.omin > c.omax)

Valid(c) == CASE c.kind = "lattice" -> LatValid(c) [] c.kind = "pwl" -> PwlValid(c) [] c.kind = "linear" -> LinValid(c)
              [] c.kind = "cat" -> CatValid(c) [] c.kind = "kfl" -> KflValid(c)
MustReject(c) == CASE c.kind = "lattice" -> LatMustReject(c) [] c.kind = "pwl" -> PwlMustReject(c) [] c.kind = "linear" -> LinMustReject(c)
                   [] c.kind = "cat" -> CatMustReject(c) [] c.kind = "kfl" -> KflMustReject(c)
\* design-level sanity: whatever the statement says must be rejected is indeed invalid by the library's rules
Consistent(c) == MustReject(c) => ~Valid(c)
=============================================================================
