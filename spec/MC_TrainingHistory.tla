------------------------- MODULE MC_TrainingHistory -------------------------
EXTENDS TrainingHistory, Json, IOUtils, SequencesExt
V3 == {"calib", "lattice", "outcal"}
AllC3 == [v \in V3 |-> TRUE]
VK == {"calib", "kfl_kernel", "kfl_scale"}
AllCK == [v \in VK |-> TRUE]
CoupK == {<<"kfl_kernel", "kfl_scale">>}
\* self-test: a variable created without constraint= is not re-projected by the optimizer
MissC3 == [v \in V3 |-> v # "lattice"]
NoCoup == {}
\* histories replayed on real models: every Build-rooted word over the public actions, as the machine allows them
Alphabet == {"Step", "Save", "Restore", "Finalize", "Crash"}
RECURSIVE Words(_)
Words(n) == IF n = 0 THEN {<<>>} ELSE LET W == Words(n - 1) IN W \cup {Append(w, a) : w \in {w \in W : Len(w) = n - 1}, a \in Alphabet}
\* the enabling conditions of the machine, folded over a word: Restore needs a snapshot; after Crash the
\* model is rebuilt (Recover) before anything else happens, so "Crash" stands for Crash.Recover
RECURSIVE ValidFrom(_, _)
ValidFrom(w, hasSnap) == IF w = <<>> THEN TRUE
                         ELSE LET a == Head(w) IN
                              /\ (a = "Restore" => hasSnap)
                              /\ ValidFrom(Tail(w), hasSnap \/ a = "Save")
Useful(w) == /\ \E i \in 1..Len(w) : w[i] = "Step"
             /\ \A i \in 1..(Len(w) - 1) : ~(w[i] = w[i + 1] /\ w[i] \in {"Save", "Restore", "Finalize", "Crash"})
HistoryCases(n) == {w \in Words(n) : Len(w) >= 2 /\ ValidFrom(w, FALSE) /\ Useful(w)}
ASSUME IOEnv.CASES_OUT = "" \/ ndJsonSerialize(IOEnv.CASES_OUT, SetToSeq({[h |-> w] : w \in HistoryCases(4)}))
=============================================================================
