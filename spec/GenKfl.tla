-------------------------------- MODULE GenKfl --------------------------------
EXTENDS MC_KflLayer
Out_ == IF Tier = "quick" THEN <<CaseFile(SpaceQ, KQ, SQ, XQ)>>
        ELSE <<CaseFile(SpaceQ, KQ, SQ, XQ), CaseFile(SpaceT1, KT1, SQ, XQ), CaseFile(SpaceT2, {-1, 2}, SQ, XT2), CaseFile(SpaceT3, KT3, SQ, XT3)>>
ASSUME ndJsonSerialize(IOEnv.CASES_OUT, Out_)
=============================================================================
