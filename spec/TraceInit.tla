------------------------------- MODULE TraceInit -------------------------------
(* code -> spec for C10: freshly built layers.                                                       *)
(*  LatInit [cfg (LatticeOps record; uni includes jointly unimodal dims), init ("linear"|"random"), lo, hi  *)
(*           (explicit init range, or the default derived from the bounds when hasRange = FALSE), den,       *)
(*           w (flat kernel), asserted ("pass"|"fail"), wc (kernel after the layer's own constraint)]         *)
(*  PwlInit [lens, lo, hi, mono, slopes (equal_slopes), den, w, asserted, wc; optionally miss, missc (initial   *)
(*           missing output and its constrained value), hasMin, omin, hasMax, omax]                           *)
(*  KflInit [cfg (KflOps), xden, xs, oden, outs (layer outputs on a grid), outs2 (after constraints), asserted] *)
EXTENDS InitializerOps, TraceBase
P == INSTANCE PwlOps
KF == INSTANCE KflOps
VARIABLE l
tvars == <<l>>
Nm(p) == Norm(p[1], p[2])
LCfg(e) == [e.cfg EXCEPT !.omin = Nm(e.cfg.omin), !.omax = Nm(e.cfg.omax)]
NearI(a, b, t) == Len(a) = Len(b) /\ \A n \in 1..Len(a) : a[n] - b[n] <= t /\ b[n] - a[n] <= t
LatClauses(e) ==
  LET c == LCfg(e)
      lo == IF e.hasRange THEN Nm(e.lo) ELSE InitMin(c)
      hi == IF e.hasRange THEN Nm(e.hi) ELSE InitMax(c)
      x == Unflat(c, FxSeq(e.w, e.den))  tol == Norm(e.tolu, e.den)
  IN (IF e.init = "linear" /\ ~LinearInitOK(c, x, lo, hi, tol) THEN {"LinearInitShape"} ELSE {})
     \cup (IF e.init = "random" /\ ~RandomMonoOK(c, x, lo, hi, tol) THEN {"RandomMonotonicInit"} ELSE {})
     \cup (IF e.init = "linear" /\ ~(MonoOK(c, x, tol) /\ UniOK(c, x, tol) /\ BoundsOK(c, x, tol)) THEN {"InitFeasible"} ELSE {})
     \cup (IF e.init = "random" /\ ~(MonoOK(c, x, tol) /\ BoundsOK(c, x, tol)) THEN {"InitFeasible"} ELSE {})
     \cup (IF e.asserted = "fail" THEN {"AssertPasses"} ELSE {})
     \cup (IF e.monoBoundsOnly /\ ~NearI(e.w, e.wc, e.tolu) THEN {"ConstraintKeepsInit"} ELSE {})
     \cup (IF e.init = "linear" /\ \E n \in 1..Len(e.w) : ~FxNear(e.w[n], e.tolu, e.den, LinearInitKernel(c, lo, hi)[VertexAt(c, n)])
           THEN {"DRIFT:LinearInitKernel"} ELSE {})
PwlClauses(e) ==
  LET lens == [j \in 1..Len(e.lens) |-> Nm(e.lens[j])]
      k == FxSeq(e.w, e.den)  tol == Norm(e.tolu, e.den)
  IN (IF PwlInitOK(k, lens, Nm(e.lo), Nm(e.hi), e.mono, e.slopes, tol) THEN {} ELSE {"PwlInitShape"})
     \cup (IF e.asserted = "fail" THEN {"AssertPasses"} ELSE {})
     \cup (IF NearI(e.w, e.wc, e.tolu) THEN {} ELSE {"ConstraintKeepsInit"})
     \cup (IF \E n \in 1..Len(e.w) : ~FxNear(e.w[n], e.tolu, e.den, PwlInitKernel(lens, Nm(e.lo), Nm(e.hi), e.mono, e.slopes)[n])
           THEN {"DRIFT:PwlInitKernel"} ELSE {})
     \* the learned output for missing inputs starts inside the layer's bounds and its constraint leaves it alone
     \cup (IF Has(e, "miss") /\ ((e.hasMin /\ ~RLeq(Nm(e.omin), RAdd(Norm(e.miss, e.den), tol)))
                               \/ (e.hasMax /\ ~RLeq(Norm(e.miss, e.den), RAdd(Nm(e.omax), tol))))
           THEN {"MissingOutputInitInBounds"} ELSE {})
     \cup (IF Has(e, "miss") /\ (e.miss - e.missc > e.tolu \/ e.missc - e.miss > e.tolu) THEN {"ConstraintKeepsInit"} ELSE {})
KflClauses(e) ==
  LET c == [e.cfg EXCEPT !.omin = Nm(e.cfg.omin), !.omax = Nm(e.cfg.omax)]
      pt(n) == [d \in 1..Len(e.xs[n]) |-> Norm(e.xs[n][d], e.xden)]
      np == Len(e.xs)
      tolo == Norm(e.tolu, e.oden)
  IN (IF \E n \in 1..np : ~KF!BoundedAt(c, Norm(e.outs[n], e.oden), tolo) THEN {"KflInitBounded"} ELSE {})
     \cup (IF \E n, m \in 1..np : (\E d \in 1..c.dims : c.mono[d] = 1 /\ RLt(pt(n)[d], pt(m)[d])
                                       /\ \A j \in 1..c.dims : j # d => pt(n)[j] = pt(m)[j])
                                  /\ e.outs[n] > e.outs[m] + 2 * e.tolu
           THEN {"KflInitMonotone"} ELSE {})
     \cup (IF e.asserted = "fail" THEN {"AssertPasses"} ELSE {})
     \cup (IF NearI(e.outs, e.outs2, 4 * e.tolu) THEN {} ELSE {"ConstraintKeepsInit"})
Clauses(e) == CASE e.ev = "LatInit" -> LatClauses(e) [] e.ev = "PwlInit" -> PwlClauses(e) [] e.ev = "KflInit" -> KflClauses(e)
                [] e.ev = "Raised" -> {"Raised"} [] e.ev = "NonFinite" -> {"Finite"}
TraceInit == l = 1
TraceNext == /\ l <= Len(Trace) /\ l' = l + 1 /\ Record(Trace[l].i, Clauses(Trace[l]))
TraceSpec == TraceInit /\ [][TraceNext]_tvars
ASSUME TLCSet(1, {})
=============================================================================
