---------------------------- MODULE MC_LinearLayer ----------------------------
EXTENDS LinearLayer, Json, IOUtils, SequencesExt
L(m, md, rd, hl, lo, hh, hi, nm, ub) ==
  [kind |-> "linear", mono |-> m, mdom |-> md, rdom |-> rd,
   range |-> [i \in 1..Len(m) |-> IF hl[i] /\ hh[i] THEN R(hi[i] - lo[i]) ELSE One],
   norm |-> nm, hasLo |-> hl, lo |-> [i \in 1..Len(m) |-> R(lo[i])], hasHi |-> hh,
   hi |-> [i \in 1..Len(m) |-> R(hi[i])], useBias |-> ub]
TT == <<TRUE, TRUE>>  FF == <<FALSE, FALSE>>  TF == <<TRUE, FALSE>>  FT == <<FALSE, TRUE>>
SpaceQ ==
  {L(m, <<>>, <<>>, hl, <<0, 0>>, hh, <<1, 2>>, nm, ub) :
     m \in {<<1, 1>>, <<1, -1>>, <<0, 1>>}, hl \in {TT, FF, TF}, hh \in {TT, FF, FT}, nm \in {0, 1}, ub \in BOOLEAN}
  \cup {L(<<1, 1>>, << <<1, 2>> >>, <<>>, hl, <<0, 0>>, hl, <<2, 2>>, 0, ub) : hl \in {TT, FF}, ub \in BOOLEAN}
  \cup {L(m, <<>>, << <<1, 2>> >>, TT, <<0, 0>>, TT, hi, 0, TRUE) : m \in {<<1, 1>>, <<-1, -1>>}, hi \in {<<1, 2>>, <<2, 1>>}}
KQ == -2..2
KT == -1..1
XQ == {<<-1, 2>>, <<0, 1>>, <<1, 2>>, <<1, 1>>, <<3, 2>>, <<2, 1>>, <<5, 2>>}
T3 == <<TRUE, TRUE, TRUE>>  F3 == <<FALSE, FALSE, FALSE>>
SpaceT ==
  {L(m, md, <<>>, hl, <<0, 0, 0>>, hh, <<1, 2, 1>>, nm, ub) :
     m \in {<<1, 1, 1>>, <<1, -1, 0>>, <<1, 1, 0>>}, md \in {<<>>, << <<1, 2>> >>},
     hl \in {T3, F3, <<TRUE, FALSE, TRUE>>}, hh \in {T3, F3, <<FALSE, TRUE, TRUE>>}, nm \in {0, 1}, ub \in BOOLEAN}
  \cup {L(m, <<>>, rd, T3, <<0, 0, 0>>, T3, hi, 0, TRUE) :
     m \in {<<1, 1, 1>>, <<-1, -1, -1>>}, rd \in {<< <<1, 2>> >>, << <<1, 2>>, <<2, 3>> >>}, hi \in {<<1, 2, 3>>, <<2, 1, 1>>}}
ValidL(c) == \A n \in 1..Len(c.mdom) : c.mono[c.mdom[n][1]] = 1 /\ c.mono[c.mdom[n][2]] = 1
CaseFile(space, kd, xg) == [cfgs |-> SetToSeq({c \in space : ValidL(c)}), kvals |-> SetToSeq(kd), xgrid |-> SetToSeq(xg)]
Tier == IOEnv.VERIF_TIER
=============================================================================
