----------------------------- MODULE ComposeFx -----------------------------
(* C03 conformance: the model function of Compose.tla re-evaluated by TLC from the weights         *)
(* recorded from a real Keras model, in signed fixed point with 15 fractional bits (Q15).          *)
(* Exact rationals overflow TLC's 32-bit integers for real-valued weights; products are formed      *)
(* limb-wise so that no intermediate exceeds 2^31.  The harness sets `conf` only when every          *)
(* magnitude is below 2^14 (so that every result fits) and supplies the comparison tolerance.        *)
(* Covered: pwl / categorical calibrators (with missing values), hypercube and simplex lattices, linear *)
(* layers, averaging, linear combination, output calibration.                                        *)
EXTENDS Compose
Q1 == 32768
AbsI(a) == IF a < 0 THEN -a ELSE a
\* a * b / 2^15 for Q15 operands (|values| < 2^15, |result| < 2^16)
MulQ(a, b) ==
  LET s == IF (a < 0) # (b < 0) THEN -1 ELSE 1
      x == AbsI(a)  y == AbsI(b)
      xh == x \div Q1  xl == x % Q1  yh == y \div Q1  yl == y % Q1
  IN s * (xh * yh * Q1 + xh * yl + xl * yh + (xl * yl) \div Q1)
\* fixed-point vector [d, k] -> Q15 integers
ToQ(k, d) == IF d <= Q1 THEN k * (Q1 \div d) ELSE k \div (d \div Q1)
VecFx(v) == [i \in 1..Len(v.k) |-> ToQ(v.k[i], v.d)]
RatQ(r) == (r[1] * Q1) \div r[2]                    \* small rationals (keypoints, at most a few units)
\* a / b in Q15 for 0 < a < b
RECURSIVE FracQ(_, _)
FracQ(a, b) == IF b < Q1 THEN (a * Q1) \div b ELSE FracQ(a \div 2, b \div 2)
Ramp(a, b) == IF a <= 0 THEN 0 ELSE IF a >= b THEN Q1 ELSE FracQ(a, b)
RECURSIVE SumI(_, _)
SumI(f, n) == IF n = 0 THEN 0 ELSE f[n] + SumI(f, n - 1)

PwlQ(kpq, kern, x) ==        \* kern = <<bias, heights>> in Q15, kpq = keypoints in Q15
  kern[1] + SumI([j \in 1..(Len(kern) - 1) |-> MulQ(kern[j + 1], Ramp(x - kpq[j], kpq[j + 1] - kpq[j]))], Len(kern) - 1)
\* xf = [m |-> missing, q |-> value in Q15 (pwl) or bucket index (cat)]
CalQ(m, e, f, u, xf) ==
  LET c == m.cals[f] IN
  IF c.kind = "pwl"
  THEN (IF xf.m /\ c.imputes THEN VecFx(e.W.miss[f][u])[1]
        ELSE PwlQ([j \in 1..Len(c.kp) |-> RatQ(c.kp[j])], VecFx(e.W.cal[f][u]), xf.q))
  ELSE (IF xf.m THEN VecFx(e.W.cal[f][u])[c.nb] ELSE VecFx(e.W.cal[f][u])[xf.q + 1])
TriQ(a) == LET d == AbsI(a) IN IF d >= Q1 THEN 0 ELSE Q1 - d
ClipQ(c, j, v) == IF ~c.clip THEN v ELSE IF v < 0 THEN 0 ELSE IF v > (c.sizes[j] - 1) * Q1 THEN (c.sizes[j] - 1) * Q1 ELSE v
RECURSIVE HyperQ(_, _, _, _, _)
HyperQ(c, kern, pt, v, d) ==
  IF d > Len(c.sizes) THEN kern[L!Idx(c, v)]
  ELSE LET RECURSIVE A(_)
           A(a) == IF a < 0 THEN 0
                   ELSE LET wt == TriQ(ClipQ(c, d, pt[d]) - a * Q1)
                        IN IF wt = 0 THEN A(a - 1)
                           ELSE MulQ(HyperQ(c, kern, pt, [v EXCEPT ![d] = a], d + 1), wt) + A(a - 1)
       IN A(c.sizes[d] - 1)
\* simplex interpolation (LatticeInterp.Simplex) in Q15: lower corner, residuals sorted descending (ties: lower index)
RECURSIVE SortDescQ(_, _)
SortDescQ(r, S) == IF S = {} THEN <<>>
                   ELSE LET best == CHOOSE d \in S : \A e \in S : r[e] < r[d] \/ (r[e] = r[d] /\ d <= e)
                        IN <<best>> \o SortDescQ(r, S \ {best})
RECURSIVE SimplexTermsQ(_, _, _, _, _, _, _)
SimplexTermsQ(c, kern, r, order, v, k, prev) ==
  LET n == Len(order)
      nextr == IF k < n THEN r[order[k + 1]] ELSE 0
      term == MulQ(kern[L!Idx(c, v)], prev - nextr)
  IN IF k = n THEN term
     ELSE term + SimplexTermsQ(c, kern, r, order, [v EXCEPT ![order[k + 1]] = v[order[k + 1]] + 1], k + 1, nextr)
SimplexQ(c, kern, pt) ==
  LET n == Len(c.sizes)
      xc == [d \in 1..n |-> ClipQ(c, d, pt[d])]
      lo == [d \in 1..n |-> LET f == xc[d] \div Q1 IN IF f > c.sizes[d] - 2 THEN c.sizes[d] - 2 ELSE IF f < 0 THEN 0 ELSE f]
      r == [d \in 1..n |-> xc[d] - lo[d] * Q1]
  IN SimplexTermsQ(c, kern, r, SortDescQ(r, 1..n), lo, 0, Q1)
\* KroneckerFactoredLattice (KflOps.KflEval) in Q15; w = kernel entries in (i, d, t) order, then the scales, then the bias
PhiQ(c, i, v0) ==
  LET v == IF ~c.clip THEN v0 ELSE IF v0 < 0 THEN 0 ELSE IF v0 > (c.L - 1) * Q1 THEN (c.L - 1) * Q1 ELSE v0
      a == AbsI(i * Q1 - v)
  IN IF c.L = 2 THEN (IF i = 0 THEN Q1 - v ELSE v) ELSE Q1 - (IF a < Q1 THEN a ELSE Q1)
KflQ(c, w, pt) ==
  LET nk == c.L * c.dims * c.terms
      RECURSIVE SumIQ(_, _, _)
      SumIQ(d, t, i) == IF i < 0 THEN 0 ELSE MulQ(w[KIdx(c, <<i, d, t>>)], PhiQ(c, i, pt[d])) + SumIQ(d, t, i - 1)
      RECURSIVE ProdDQ(_, _)
      ProdDQ(t, d) == IF d = 0 THEN Q1 ELSE MulQ(SumIQ(d, t, c.L - 1), ProdDQ(t, d - 1))
      RECURSIVE SumTQ(_)
      SumTQ(t) == IF t = 0 THEN 0 ELSE MulQ(w[nk + t], ProdDQ(t, c.dims)) + SumTQ(t - 1)
  IN w[nk + c.terms + 1] + SumTQ(c.terms) \div c.terms
LinQ(k, b, useBias, pt) == (IF useBias THEN b ELSE 0) + SumI([j \in 1..Len(k) |-> MulQ(k[j], pt[j])], Len(k))
MidQ(m, e, i, x) ==
  LET c == m.mids[i]
      pt == [j \in 1..Len(c.ins) |-> CalQ(m, e, c.ins[j][1], c.ins[j][2], x[c.ins[j][1]])]
  IN IF c.kind = "lattice" /\ c.interp = "simplex" THEN SimplexQ(c, VecFx(e.W.mid[i]), pt)
     ELSE IF c.kind = "lattice" THEN HyperQ(c, VecFx(e.W.mid[i]), pt, [d \in 1..Len(c.sizes) |-> 0], 1)
     ELSE IF c.kind = "kfl" THEN KflQ(c, VecFx(e.W.mid[i]), pt)
     ELSE LinQ(VecFx(e.W.mid[i]), VecFx(e.W.midb[i])[1], c.useBias, pt)
ModelQ(m, e, x) ==
  LET n == Len(m.mids)
      ys == [i \in 1..n |-> MidQ(m, e, i, x)]
      y == IF m.comb.kind = "none" THEN ys[1]
           ELSE IF m.comb.kind = "avg" THEN SumI(ys, n) \div n
           ELSE LinQ(VecFx(e.W.comb), VecFx(e.W.combb)[1], m.comb.useBias, ys)
  IN IF m.oc.on THEN PwlQ([j \in 1..Len(m.oc.kp) |-> RatQ(m.oc.kp[j])], VecFx(e.W.oc), y) ELSE y
=============================================================================
