---------------------------- MODULE GenLinearLayer ----------------------------
EXTENDS MC_LinearLayer
Out_ == IF Tier = "quick" THEN <<CaseFile(SpaceQ, KQ, XQ)>> ELSE <<CaseFile(SpaceQ, KQ, XQ), CaseFile(SpaceT, -1..1, XQ)>>
ASSUME ndJsonSerialize(IOEnv.CASES_OUT, Out_)
=============================================================================
