------------------------------ MODULE KflLayer ------------------------------
(* State machine for C07: every interleaving of kernel / scale updates and constraint          *)
(* applications.  An update of either variable makes both "dirty"; a variable is clean once    *)
(* its constraint has been applied since the last update of either (this is what a Keras        *)
(* training step guarantees, in whichever order it applies the constraints).                    *)
EXTENDS KflOps
CONSTANTS CfgSpace, KDom, SDom, XGrid, MaxUpdates, GuardFixed
VARIABLES cfg, w, P, s, kclean, sclean, nupd
vars == <<cfg, w, P, s, kclean, sclean, nupd>>

Ones(c) == [t \in Terms(c) |-> One]
Init == /\ cfg \in CfgSpace
        /\ w \in [Keys(cfg) -> {R(a) : a \in KDom}]
        /\ P = Ones(cfg)
        /\ s \in [Terms(cfg) -> SDom]
        /\ kclean = FALSE /\ sclean = FALSE /\ nupd = 1
UpdateKernel == /\ nupd < MaxUpdates /\ kclean /\ sclean
                /\ w' \in [Keys(cfg) -> {R(a) : a \in KDom}] /\ P' = Ones(cfg)
                /\ kclean' = FALSE /\ sclean' = FALSE /\ nupd' = nupd + 1 /\ UNCHANGED <<cfg, s>>
UpdateScale == /\ nupd < MaxUpdates /\ kclean /\ sclean
               /\ s' \in [Terms(cfg) -> SDom]
               /\ kclean' = FALSE /\ sclean' = FALSE /\ nupd' = nupd + 1 /\ UNCHANGED <<cfg, w, P>>
ConstrainKernel == /\ ~kclean
                   /\ LET r == KernelConstrain(cfg, w, P, s, GuardFixed) IN w' = r[1] /\ P' = r[2]
                   /\ kclean' = TRUE /\ UNCHANGED <<cfg, s, sclean, nupd>>
ConstrainScale == /\ ~sclean
                  /\ s' = ScaleConstrain(cfg, s)
                  /\ sclean' = TRUE /\ UNCHANGED <<cfg, w, P, kclean, nupd>>
Done == kclean /\ sclean /\ nupd >= MaxUpdates /\ UNCHANGED vars
Next == UpdateKernel \/ UpdateScale \/ ConstrainKernel \/ ConstrainScale \/ Done
Spec == Init /\ [][Next]_vars

Points == [1..cfg.dims -> XGrid]
InRange(x) == \A d \in 1..cfg.dims : RLeq(Zero, x[d]) /\ RLeq(x[d], R(cfg.L - 1))
Covered(x) == cfg.clip \/ InRange(x)
Out(x) == KflEval(cfg, w, P, s, Bias(cfg), x)
Clean == kclean /\ sclean
InvBounded == Clean => \A x \in Points : Covered(x) => BoundedAt(cfg, Out(x), Zero)
InvMonotone == Clean => \A x \in Points, d \in 1..cfg.dims, v \in XGrid :
                 (cfg.mono[d] = 1 /\ RLt(x[d], v) /\ Covered(x) /\ Covered([x EXCEPT ![d] = v]))
                   => RLeq(Out(x), Out([x EXCEPT ![d] = v]))
\* constraining twice changes nothing (idempotence of both constraints on clean states)
InvIdempotent == Clean => /\ ScaleConstrain(cfg, s) = s
                          /\ LET r == KernelConstrain(cfg, w, P, s, GuardFixed)
                             IN \A x \in Points : KflEval(cfg, r[1], r[2], s, Bias(cfg), x) = Out(x)
=============================================================================
