---------------------------- MODULE TraceLattice ----------------------------
(* code -> spec for the Lattice weight constraint (C01; events are reused by C08/C09/C10).     *)
(* Event = one real call on one kernel column:                                                *)
(*   [ev |-> "Constrain" | "Finalize" | "LayerFinalize", cfg, den, w0, w (flat row-major ints *)
(*    over den), tolu, exact]                                                                 *)
(*   Constrain     LatticeConstraints(cfg)(w0)              contract: StrictOK when cfg.strict *)
(*   Finalize      lattice_lib.finalize_constraints(w0)     contract: mono/trust (bounds when trusts)*)
(*   LayerFinalize Lattice.finalize_constraints()           contract: StrictOK (any mode)      *)
EXTENDS LatticeOps, TraceBase

VARIABLE l
tvars == <<l>>

Tol(e) == Norm(e.tolu, e.den)
Cfg(e) == [e.cfg EXCEPT !.omin = Norm(e.cfg.omin[1], e.cfg.omin[2]), !.omax = Norm(e.cfg.omax[1], e.cfg.omax[2])]

Near(c, x, y, tol) == \A v \in Vertices(c) : RNear(x[v], y[v], tol)
\* recorded flat ints (over e.den) against an exact kernel of the algorithm spec
NearFx(c, e, y) == \A n \in 1..Len(e.w) : FxNear(e.w[n], e.tolu, e.den, y[VertexAt(c, n)])

Clauses(e) ==
  IF e.ev = "Raised" THEN {"Raised"}
  ELSE IF e.ev = "NonFinite" THEN {"Finite"}
  ELSE
  LET c == Cfg(e)
      x == Unflat(c, FxSeq(e.w, e.den))
      x0 == Unflat(c, FxSeq(e.w0, e.den))
      tol == Tol(e)
      strictEv == e.ev = "LayerFinalize" \/ (e.ev = "Constrain" /\ c.strict)
      shape == strictEv /\ GuardOn(c)
      fin == e.ev = "Finalize" /\ AnyMono(c)
  IN  (IF (shape \/ fin) /\ ~MonoOK(c, x, tol) THEN {"MonoOK"} ELSE {})
      \cup (IF (shape \/ fin) /\ ~EdgeOK(c, x, RMul(R(2), tol)) THEN {"EdgeOK"} ELSE {})
      \cup (IF (shape \/ fin) /\ ~TrapWaived(c) /\ ~TrapOK(c, x, tol) THEN {"TrapOK"} ELSE {})
      \cup (IF (e.ev # "Finalize" \/ (fin /\ HasTrust(c))) /\ ~BoundsOK(c, x, tol) THEN {"BoundsOK"} ELSE {})
      \cup (IF e.ev # "Finalize" /\ FeasibleAll(c, x0) /\ ~Near(c, x, x0, tol) THEN {"FeasibleFixed"} ELSE {})
      \cup (IF e.exact /\ e.ev = "Constrain" /\ ~NearFx(c, e, Constrain(c, x0)) THEN {"DRIFT:Constrain"} ELSE {})
      \cup (IF e.exact /\ e.ev = "Finalize" /\ ~NearFx(c, e, Finalize(c, x0)) THEN {"DRIFT:Finalize"} ELSE {})

TraceInit == l = 1
TraceNext == /\ l <= Len(Trace)
             /\ l' = l + 1
             /\ Record(Trace[l].i, Clauses(Trace[l]))
TraceSpec == TraceInit /\ [][TraceNext]_tvars
ASSUME TLCSet(1, {})
=============================================================================
