------------------------------- MODULE GenPwl -------------------------------
(* spec -> code: writes the configuration space / kernel domain that the exhaustive model     *)
(* explores (tier from the environment) so that the harness replays exactly those cases.      *)
EXTENDS MC_PwlConstraint
Tier == IOEnv.VERIF_TIER
Out == IF Tier = "quick" THEN <<CaseFile(SpaceQ, ValsQ)>>
       ELSE <<CaseFile(SpaceT3, ValsT), CaseFile(SpaceT4, ValsT4)>>
ASSUME ndJsonSerialize(IOEnv.CASES_OUT, Out)
=============================================================================
