------------------------------ MODULE TracePwl ------------------------------
(* code -> spec for the PWL calibrator weight constraint (C04, and the PWL parts of C08/C09).  *)
(* Event (one real call of the constraint on one kernel column):                               *)
(*   [ev |-> "Constrain", cfg |-> <PwlConstraint configuration>, den, w0, w (ints over den),   *)
(*    sg (exact signs of the returned heights), exact (TRUE: inputs from the enumerated        *)
(*    integer domain, so the algorithm spec is evaluated too), tolu (tolerance in units)]      *)
(* Contract clauses are those of PwlConstraint; "DRIFT:*" clauses compare with the algorithm.  *)
EXTENDS PwlOps, TraceBase

VARIABLE l
tvars == <<l>>

Tol(e) == Norm(e.tolu, e.den)
MonoExact(c, e) == \A i \in 1..Len(e.sg) : (c.mono = 1 => e.sg[i] >= 0) /\ (c.mono = -1 => e.sg[i] <= 0)

Clauses(e) ==
  LET c == e.cfg
      x == FxSeq(e.w, e.den)
      x0 == FxSeq(e.w0, e.den)
      tol == Tol(e)
  IN  IF e.ev = "Raised" THEN {"Raised"}
      ELSE IF e.ev = "NonFinite" THEN {"Finite"}
      ELSE
      (IF MonoExact(c, e) THEN {} ELSE {"MonoOK"})
      \cup (IF BoundsOK(c, x, tol) THEN {} ELSE {"BoundsOK"})
      \cup (IF ConvexRequired(c) /\ ~ConvexOK(c, x, RMul(tol, R(4))) THEN {"ConvexOK"} ELSE {})
      \cup (IF ClampExactRequired(c) /\ ~ClampOK(c, x, tol) THEN {"ClampOK"} ELSE {})
      \cup (IF ~ClampExactRequired(c) /\ Has(e, "resid") /\ ~ClampOK(c, x, RAdd(tol, Norm(e.resid, e.den)))
            THEN {"ClampResidual"} ELSE {})
      \cup (IF Feasible(c, x0) /\ \E i \in 1..Len(x) : ~RNear(x[i], x0[i], tol) THEN {"FeasibleFixed"} ELSE {})
      \cup (IF e.exact /\ (LET p == Project(c, x0) IN \E i \in 1..Len(x) : ~FxNear(e.w[i], e.tolu, e.den, p[i]))
            THEN {"DRIFT:Project"} ELSE {})

TraceInit == l = 1
TraceNext == /\ l <= Len(Trace)
             /\ l' = l + 1
             /\ Record(Trace[l].i, Clauses(Trace[l]))
TraceSpec == TraceInit /\ [][TraceNext]_tvars
ASSUME TLCSet(1, {})
=============================================================================
