-------------------------- MODULE TraceIndependence --------------------------
(* code -> spec for C09: a differential contract between real observations.                      *)
(*  Single [tr, key (ints: the column / example / unit parameters+input), val (ints)]             *)
(*         one real call on a single column (units = 1) or a single example (batch of 1)           *)
(*  Multi  [tr, keys (seq of keys), vals (seq of vals), tolu]                                      *)
(*         one real call on several columns / examples at once, in any order / subset              *)
(* memo is the uninterpreted per-unit function as observed so far; a Multi event must agree with  *)
(* it entry by entry, and repeated Single observations must be consistent (determinism).           *)
EXTENDS Integers, Sequences, FiniteSets, TLC, TraceBase
VARIABLES l, memo, cur
tvars == <<l, memo, cur>>
Near(a, b, t) == Len(a) = Len(b) /\ \A n \in 1..Len(a) : a[n] - b[n] <= t /\ b[n] - a[n] <= t
Memo0 == IF Trace[l].tr # cur THEN <<>> ELSE memo      \* a new trace starts with an empty memo
Lookup(m, key) == LET hit == {n \in 1..Len(m) : m[n][1] = key} IN IF hit = {} THEN 0 ELSE CHOOSE n \in hit : TRUE
TraceInit == l = 1 /\ memo = <<>> /\ cur = -1
TraceNext ==
  /\ l <= Len(Trace) /\ l' = l + 1 /\ cur' = Trace[l].tr
  /\ LET e == Trace[l]  m == Memo0 IN
     CASE e.ev = "Single" ->
            LET n == Lookup(m, e.key) IN
            /\ memo' = IF n = 0 THEN Append(m, <<e.key, e.val>>) ELSE m
            /\ Record(e.i, IF n # 0 /\ ~Near(m[n][2], e.val, e.tolu) THEN {"Deterministic"} ELSE {})
       [] e.ev = "Multi" ->
            /\ memo' = m
            /\ Record(e.i,
                 (IF \E u \in 1..Len(e.keys) : Lookup(m, e.keys[u]) = 0 THEN {"MACHINERY:missing-single"} ELSE {})
                 \cup (IF \E u \in 1..Len(e.keys) : Lookup(m, e.keys[u]) # 0 /\ ~Near(m[Lookup(m, e.keys[u])][2], e.vals[u], e.tolu)
                       THEN {e.what} ELSE {}))
       [] OTHER -> memo' = m /\ Record(e.i, IF e.ev = "Raised" THEN {"Raised"} ELSE IF e.ev = "NonFinite" THEN {"Finite"} ELSE {})
TraceSpec == TraceInit /\ [][TraceNext]_tvars
ASSUME TLCSet(1, {})
=============================================================================
