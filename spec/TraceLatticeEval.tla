-------------------------- MODULE TraceLatticeEval --------------------------
(* code -> spec for C02: each Eval event of a real Lattice layer must equal the interpolation   *)
(* defined in LatticeInterp, recomputed exactly from the recorded (dyadic) kernel and point.     *)
(* Event [ev |-> "Eval", sizes, interp, clip, kden, k (flat ints), xden, x, oden, out, tolu]      *)
EXTENDS LatticeInterp, TraceBase
VARIABLE l
tvars == <<l>>
Clauses(e) ==
  IF e.ev = "Raised" THEN {"Raised"} ELSE IF e.ev = "NonFinite" THEN {"Finite"} ELSE
  LET c == [sizes |-> e.sizes]
      kern == Unflat(c, FxSeq(e.k, e.kden))
      x == [d \in 1..Len(e.x) |-> Norm(e.x[d], e.xden)]
      want == IF e.interp = "hypercube" THEN Hyper(c, kern, x, e.clip) ELSE Simplex(c, kern, x, e.clip)
  IN IF FxNear(e.out, e.tolu, e.oden, want) THEN {} ELSE {"Interpolation"}
TraceInit == l = 1
TraceNext == /\ l <= Len(Trace) /\ l' = l + 1 /\ Record(Trace[l].i, Clauses(Trace[l]))
TraceSpec == TraceInit /\ [][TraceNext]_tvars
ASSUME TLCSet(1, {})
=============================================================================
