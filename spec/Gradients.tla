------------------------------ MODULE Gradients ------------------------------
(* C19: the hand-written gradient of kronecker_factored_lattice_lib.custom_reduce_prod.          *)
(* For a vector t (the entries along the reduced axis) and upstream gradient dy the code returns *)
(*    dy * ( divide_no_nan(prod(t), t_i)  +  [exactly one zero] * prod(t + is_zero) * is_zero_i )  *)
(* which must equal the derivative of the plain product, dy * prod_{j # i} t_j, for every pattern *)
(* of exact zeros.  Integers suffice: prod(t) / t_i is exact.                                     *)
EXTENDS Integers, Sequences, FiniteSets, TLC
CONSTANTS MaxLen, Vals, DyVals
VARIABLES t, dy
vars == <<t, dy>>
RECURSIVE Prod(_)
Prod(s) == IF s = <<>> THEN 1 ELSE Head(s) * Prod(Tail(s))
IsZero(s) == [i \in 1..Len(s) |-> IF s[i] = 0 THEN 1 ELSE 0]
RECURSIVE Sum(_)
Sum(s) == IF s = <<>> THEN 0 ELSE Head(s) + Sum(Tail(s))
DivNoNan(a, b) == IF b = 0 THEN 0 ELSE a \div b
CodeGrad(s, i, d) ==
  LET z == IsZero(s)
      g0 == DivNoNan(Prod(s), s[i])
      g1 == (IF Sum(z) = 1 THEN 1 ELSE 0) * Prod([j \in 1..Len(s) |-> s[j] + z[j]]) * z[i]
  IN d * (g0 + g1)
TrueGrad(s, i, d) == d * Prod([j \in 1..Len(s) |-> IF j = i THEN 1 ELSE s[j]])
Init == /\ t \in UNION {[1..n -> Vals] : n \in 1..MaxLen} /\ dy \in DyVals
Next == UNCHANGED vars
GradExact == \A i \in 1..Len(t) : CodeGrad(t, i, dy) = TrueGrad(t, i, dy)
\* how many zero patterns were met (for coverage): 0, 1, 2, all zeros
=============================================================================
