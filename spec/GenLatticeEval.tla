---------------------------- MODULE GenLatticeEval ----------------------------
EXTENDS MC_LatticeEval
Out_ == IF Tier = "quick" THEN <<CaseFile(SizesQ, {0, 1}, GridQ)>>
        ELSE <<CaseFile(SizesQ, {0, 1}, GridQ), CaseFile(SizesT1, {0, 1}, GridT1), CaseFile(SizesT2, {0, 1}, GridT2)>>
ASSUME ndJsonSerialize(IOEnv.CASES_OUT, Out_)
=============================================================================
