----------------------------- MODULE MC_Initializers -----------------------------
EXTENDS Initializers
Zs(n) == [i \in 1..n |-> 0]
B(s, m, u, hmin, lo, hmax, hi) ==
  [sizes |-> s, mono |-> m, uni |-> u, edge |-> <<>>, trap |-> <<>>, mdom |-> <<>>, rdom |-> <<>>, jmono |-> <<>>, juni |-> <<>>,
   hasMin |-> hmin, omin |-> R(lo), hasMax |-> hmax, omax |-> R(hi), iters |-> 1, strict |-> TRUE]
Bounds == {<<FALSE, 0, FALSE, 1>>, <<TRUE, 0, TRUE, 2>>, <<TRUE, -1, FALSE, 0>>, <<FALSE, 0, TRUE, 3>>, <<FALSE, 0, TRUE, -2>>, <<TRUE, -3, TRUE, -1>>}
SpaceQ ==
  {B(s, m, Zs(Len(s)), b[1], b[2], b[3], b[4]) : s \in {<<2, 2>>, <<3, 2>>, <<2, 2, 2>>}, m \in {<<1, 1>>, <<1, 0>>, <<0, 0>>}, b \in Bounds}
  \cup {B(<<2, 2, 2>>, m, <<0, 0, 0>>, b[1], b[2], b[3], b[4]) : m \in {<<1, 1, 0>>, <<0, 0, 0>>, <<1, 1, 1>>}, b \in Bounds}
  \cup {B(<<3, 3>>, m, u, b[1], b[2], b[3], b[4]) : m \in {<<0, 0>>, <<0, 1>>}, u \in {<<1, 0>>, <<-1, 0>>}, b \in Bounds}
  \cup {B(<<4, 2>>, <<0, 1>>, <<1, 0>>, TRUE, 0, TRUE, 1), B(<<5, 2>>, <<0, 0>>, <<-1, 0>>, FALSE, 0, FALSE, 1)}
ValidI(c) == Len(c.mono) = Len(c.sizes)
SpaceV == {c \in SpaceQ : ValidI(c)}
=============================================================================
