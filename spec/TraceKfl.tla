------------------------------- MODULE TraceKfl -------------------------------
(* code -> spec for C07.  A trace (key tr) is a history of one unit of a real                   *)
(* KroneckerFactoredLattice layer:                                                              *)
(*   Update    [var |-> "kernel" | "scale" | "both"]        an optimizer / assign wrote the variable(s) *)
(*   Constrain [var |-> "kernel" | "scale"]                 variable.assign(variable.constraint(variable)) *)
(*   Finalize                                               layer.finalize_constraints()          *)
(*   Eval      [cfg, den, w (ints, order i,d,t), s, b, xden, xs, oden, outs, tolu]                 *)
(* The clean / dirty bookkeeping is that of KflLayer.tla; on every Eval the recorded outputs must *)
(* equal KflEval of the recorded weights (conformance of evaluate_with_hypercube_interpolation)   *)
(* and, when both constraints have been applied since the last update, be monotone and bounded.   *)
EXTENDS KflOps, TraceBase
VARIABLES l, st
tvars == <<l, st>>
Nm(p) == Norm(p[1], p[2])
Cfg(e) == [e.cfg EXCEPT !.omin = Nm(e.cfg.omin), !.omax = Nm(e.cfg.omax)]
KeyIdx(c, k) == 1 + (k[1] * c.dims + (k[2] - 1)) * c.terms + (k[3] - 1)
WOf(c, e) == [k \in Keys(c) |-> Norm(e.w[KeyIdx(c, k)], e.den)]
SOf(c, e) == [t \in Terms(c) |-> Norm(e.s[t], e.den)]
PointOf(e, n) == [d \in 1..Len(e.xs[n]) |-> Norm(e.xs[n][d], e.xden)]
Covered(c, x) == c.clip \/ \A d \in 1..c.dims : RLeq(Zero, x[d]) /\ RLeq(x[d], R(c.L - 1))
\* x <= y componentwise, differing in exactly one coordinate, which is monotone
MonoPair(c, x, y) == \E d \in 1..c.dims : /\ c.mono[d] = 1 /\ RLt(x[d], y[d])
                                          /\ \A j \in 1..c.dims : j # d => x[j] = y[j]
\* Conformance is evaluated in integer fixed point (scale SC) with truncation after every product,
\* like the float computation it is compared with; exact rationals would overflow 32 bits for
\* real-valued weights.  All magnitudes are bounded by the harness (flag conf).
SC == 4096
FMul(a, b) == (a * b) \div SC
PhiFx(c, i, v0) ==        \* v0 over SC
  LET v == IF c.clip THEN (IF v0 < 0 THEN 0 ELSE IF v0 > (c.L - 1) * SC THEN (c.L - 1) * SC ELSE v0) ELSE v0
      a == IF i * SC - v < 0 THEN v - i * SC ELSE i * SC - v
  IN IF c.L = 2 THEN (IF i = 0 THEN SC - v ELSE v) ELSE SC - (IF a < SC THEN a ELSE SC)
RECURSIVE SumIFx(_, _, _, _, _, _)
SumIFx(c, wf, d, t, xf, i) == IF i < 0 THEN 0 ELSE FMul(wf[KeyIdx(c, <<i, d, t>>)], PhiFx(c, i, xf[d])) + SumIFx(c, wf, d, t, xf, i - 1)
RECURSIVE ProdDFx(_, _, _, _, _)
ProdDFx(c, wf, t, xf, d) == IF d = 0 THEN SC ELSE FMul(SumIFx(c, wf, d, t, xf, c.L - 1), ProdDFx(c, wf, t, xf, d - 1))
RECURSIVE SumTFx(_, _, _, _, _)
SumTFx(c, wf, sf, xf, t) == IF t = 0 THEN 0 ELSE FMul(sf[t], ProdDFx(c, wf, t, xf, c.dims)) + SumTFx(c, wf, sf, xf, t - 1)
KflEvalFx(c, wf, sf, bf, xf) == bf + SumTFx(c, wf, sf, xf, c.terms) \div c.terms
ToSC(ints, den) == [n \in 1..Len(ints) |-> (ints[n] * SC) \div den]
EvalClauses(e, clean) ==
  LET c == Cfg(e)
      np == Len(e.xs)
      tolo == Norm(e.tolu, e.oden)
      wf == ToSC(e.w, e.den)  sf == ToSC(e.s, e.den)  bf == (e.b * SC) \div e.den
      near(n) == LET v == KflEvalFx(c, wf, sf, bf, ToSC(e.xs[n], e.xden))
                     o == (e.outs[n] * SC) \div e.oden
                 IN v - o <= e.ctol /\ o - v <= e.ctol
  IN (IF e.conf /\ \E n \in 1..np : ~near(n) THEN {"EvalConforms"} ELSE {})
     \cup (IF clean /\ \E n \in 1..np : Covered(c, PointOf(e, n)) /\ ~BoundedAt(c, Norm(e.outs[n], e.oden), tolo)
           THEN {"Bounded"} ELSE {})
     \cup (IF clean /\ \E n, m \in 1..np :
                 /\ MonoPair(c, PointOf(e, n), PointOf(e, m))
                 /\ Covered(c, PointOf(e, n)) /\ Covered(c, PointOf(e, m))
                 /\ e.outs[n] > e.outs[m] + 2 * e.tolu
           THEN {"Monotone"} ELSE {})
Fresh(e) == e.tr # st.tr
K0 == IF Fresh(Trace[l]) THEN FALSE ELSE st.k
S0 == IF Fresh(Trace[l]) THEN FALSE ELSE st.s
TraceInit == l = 1 /\ st = [tr |-> -1, k |-> FALSE, s |-> FALSE]
TraceNext ==
  /\ l <= Len(Trace) /\ l' = l + 1
  /\ LET e == Trace[l] IN
     /\ st' = CASE e.ev = "Update" -> [tr |-> e.tr, k |-> FALSE, s |-> FALSE]
                [] e.ev = "Constrain" -> [tr |-> e.tr, k |-> (K0 \/ e.var = "kernel"), s |-> (S0 \/ e.var = "scale")]
                [] e.ev = "Finalize" -> [tr |-> e.tr, k |-> TRUE, s |-> TRUE]
                [] OTHER -> [tr |-> e.tr, k |-> K0, s |-> S0]
     /\ Record(e.i, CASE e.ev = "Eval" -> EvalClauses(e, K0 /\ S0)
                      [] e.ev = "Raised" -> {"Raised"}
                      [] e.ev = "NonFinite" -> {"Finite"}
                      [] OTHER -> {})
TraceSpec == TraceInit /\ [][TraceNext]_tvars
ASSUME TLCSet(1, {})
=============================================================================
