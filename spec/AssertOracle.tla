----------------------------- MODULE AssertOracle -----------------------------
(* Injection machine for C12: start from any weight vector of a small grid that satisfies every   *)
(* covered constraint, then change ONE entry (every location, both directions, small and large    *)
(* magnitude).  The state after an injection is classified by the oracle of AssertOps; the cases   *)
(* for the real assert_constraints are the reachable states (written out by GenAssert).             *)
EXTENDS AssertOps
CONSTANTS CfgSpace, Dom, Den, Mags, Eps
VARIABLES cfg, w, inj
vars == <<cfg, w, inj>>
NumW(c) == CASE c.kind = "lattice" -> L!NumV(c)
             [] c.kind = "pwl" -> c.n
             [] c.kind = "linear" -> Len(c.mono)
             [] c.kind = "cat" -> c.nb
             [] c.kind = "kfl" -> c.L * c.dims * c.terms + c.terms
Feasible(c) == {x \in [1..NumW(c) -> {Norm(a, Den) : a \in Dom}] : MustPass(c, x, Eps)}
Init == /\ cfg \in CfgSpace /\ w \in Feasible(cfg) /\ inj = <<0, Zero>>
Inject == /\ inj[1] = 0
          /\ \E i \in 1..Len(w), m \in Mags, sg \in {1, -1} :
               /\ w' = [w EXCEPT ![i] = RAdd(w[i], RMul(R(sg), m))]
               /\ inj' = <<i, RMul(R(sg), m)>>
          /\ UNCHANGED cfg
Next == Inject
Verdict == IF MustFail(cfg, w, Eps) THEN "fail" ELSE IF MustPass(cfg, w, Eps) THEN "pass" ELSE "either"
\* sanity of the oracle itself: never both; the base kernels pass
InvConsistent == ~(MustFail(cfg, w, Eps) /\ MustPass(cfg, w, Eps))
InvBasePass == inj[1] = 0 => Verdict = "pass"
=============================================================================
