----------------------------- MODULE GenDykstra -----------------------------
EXTENDS MC_Dykstra
Tier == IOEnv.VERIF_TIER
Out == IF Tier = "quick" THEN <<CaseFile(Space22, {0, 1, 2}), CaseFile(Space32, {0, 2})>>
       ELSE <<CaseFile(Space22, Dom22), CaseFile(Space32, Dom32), CaseFile(Space33, Dom33), CaseFile(Space222, Dom222)>>
ASSUME ndJsonSerialize(IOEnv.CASES_OUT, Out)
=============================================================================
