---------------------------- MODULE LatticeInterp ----------------------------
(* C02: what tfl.layers.Lattice computes.                                                       *)
(*   Hyper   multilinear interpolation of the vertex values of the cell containing the point    *)
(*   Simplex sorted-simplex interpolation (lower corner, residuals sorted descending)           *)
(* Kernels are functions [Vertices -> Rat] (LatticeOps layout); a point is a tuple of rationals.  *)
EXTENDS LatticeOps

ClipPt(c, x, clip) == [d \in Dims(c) |-> IF clip THEN RClip(x[d], Zero, R(c.sizes[d] - 1)) ELSE x[d]]
Tri(a) == RMax(Zero, RSub(One, RAbs(a)))
RECURSIVE HWeightFrom(_, _, _, _)
HWeightFrom(c, xc, v, d) == IF d > Rank(c) THEN One ELSE RMul(Tri(RSub(xc[d], R(v[d]))), HWeightFrom(c, xc, v, d + 1))
HWeight(c, xc, v) == HWeightFrom(c, xc, v, 1)
SumOver(S, f(_)) == LET RECURSIVE M(_)
                        M(T) == IF T = {} THEN Zero ELSE LET e == CHOOSE e \in T : TRUE IN RAdd(f(e), M(T \ {e}))
                    IN M(S)
\* evaluated dimension by dimension (recursion depth = rank, zero-weight branches skipped), which is
\* the same sum over all vertices of kern[v] * HWeight(v)
RECURSIVE HyperRec(_, _, _, _, _)
HyperRec(c, kern, xc, v, d) ==
  IF d > Rank(c) THEN kern[v]
  ELSE LET RECURSIVE A(_)
           A(a) == IF a < 0 THEN Zero
                   ELSE LET wt == Tri(RSub(xc[d], R(a)))
                        IN IF wt = Zero THEN A(a - 1)
                           ELSE RAdd(RMul(wt, HyperRec(c, kern, xc, [v EXCEPT ![d] = a], d + 1)), A(a - 1))
       IN A(c.sizes[d] - 1)
Hyper(c, kern, x, clip) == LET xc == ClipPt(c, x, clip)
                           IN HyperRec(c, kern, xc, [d \in Dims(c) |-> 0], 1)
HyperBySum(c, kern, x, clip) == LET xc == ClipPt(c, x, clip)
                                IN SumOver(Vertices(c), LAMBDA v : RMul(kern[v], HWeight(c, xc, v)))

\* ---- simplex ---------------------------------------------------------------------------------
Lower(c, xc) == [d \in Dims(c) |-> LET f == RFloor(xc[d]) IN IF f > c.sizes[d] - 2 THEN c.sizes[d] - 2 ELSE IF f < 0 THEN 0 ELSE f]
Resid(c, xc, lo) == [d \in Dims(c) |-> RSub(xc[d], R(lo[d]))]
\* dimensions by residual, descending; ties broken by `tie` (1: lower index first, -1: higher first)
RECURSIVE SortDesc(_, _, _)
SortDesc(r, S, tie) ==
  IF S = {} THEN <<>>
  ELSE LET best == CHOOSE d \in S : \A e \in S : RLt(r[e], r[d]) \/ (r[e] = r[d] /\ (IF tie = 1 THEN d <= e ELSE d >= e))
       IN <<best>> \o SortDesc(r, S \ {best}, tie)
RECURSIVE SimplexTerms(_, _, _, _, _, _)
SimplexTerms(kern, r, order, v, k, prev) ==      \* k-th vertex of the chain (k = 0 is the lower corner)
  LET n == Len(order)
      nextr == IF k < n THEN r[order[k + 1]] ELSE Zero
      term == RMul(kern[v], RSub(prev, nextr))
  IN IF k = n THEN term
     ELSE RAdd(term, SimplexTerms(kern, r, order, [v EXCEPT ![order[k + 1]] = v[order[k + 1]] + 1], k + 1, nextr))
SimplexFrom(c, kern, xc, lo, tie) ==
  LET r == Resid(c, xc, lo) IN SimplexTerms(kern, r, SortDesc(r, Dims(c), tie), lo, 0, One)
Simplex(c, kern, x, clip) == LET xc == ClipPt(c, x, clip) IN SimplexFrom(c, kern, xc, Lower(c, xc), 1)

\* alternative cells containing the point (a coordinate on an interior grid line belongs to two cells)
LowerAlts(c, xc) == {lo \in [Dims(c) -> 0..(MaxSize(c) - 2)] :
                       \A d \in Dims(c) : lo[d] <= c.sizes[d] - 2 /\ RLeq(R(lo[d]), xc[d]) /\ RLeq(xc[d], R(lo[d] + 1))}
InRange(c, x) == \A d \in Dims(c) : RLeq(Zero, x[d]) /\ RLeq(x[d], R(c.sizes[d] - 1))
KernelMin(c, kern) == KMin(c, kern)
KernelMax(c, kern) == KMax(c, kern)
=============================================================================
