------------------------------ MODULE Initializers ------------------------------
(* State machine for C10 (lattice part).  "linear": the kernel is computed in one step.             *)
(* "random": lattice_lib.random_monotonic_initializer level by level - each level's new vertices     *)
(* receive the next parameter indices in ANY order (the np.random.shuffle); the parameter values are  *)
(* any sorted vector, so weight(v) is monotone in index(v).                                           *)
EXTENDS InitializerOps
CONSTANTS CfgSpace
VARIABLES cfg, kind, idx, level, nextIdx, pc
vars == <<cfg, kind, idx, level, nextIdx, pc>>
Origin0(c) == [d \in Dims(c) |-> 0]
Init == /\ cfg \in CfgSpace /\ kind \in {"linear", "random"}
        /\ idx = [v \in Vertices(cfg) |-> 0] /\ level = {Origin0(cfg)} /\ nextIdx = 1 /\ pc = "run"
NewLevel == {w \in Vertices(cfg) : \E v \in level, d \in Dims(cfg) : v[d] < cfg.sizes[d] - 1 /\ w = Up(cfg, v, d)}
\* one level: any bijection from the new vertices to the next |level| indices
Expand == /\ pc = "run" /\ kind = "random" /\ NewLevel # {}
          /\ \E f \in {g \in [NewLevel -> nextIdx..(nextIdx + Cardinality(NewLevel) - 1)] :
                         \A a, b \in NewLevel : a # b => g[a] # g[b]} :
               idx' = [v \in Vertices(cfg) |-> IF v \in NewLevel THEN f[v] ELSE idx[v]]
          /\ level' = NewLevel /\ nextIdx' = nextIdx + Cardinality(NewLevel) /\ UNCHANGED <<cfg, kind, pc>>
Finish == /\ pc = "run" /\ (kind = "linear" \/ NewLevel = {}) /\ pc' = "done" /\ UNCHANGED <<cfg, kind, idx, level, nextIdx>>
Done == pc = "done" /\ UNCHANGED vars
Next == Expand \/ Finish \/ Done
\* ---- invariants ------------------------------------------------------------------------------------
Lo == InitMin(cfg)
Hi == InitMax(cfg)
K == LinearInitKernel(cfg, Lo, Hi)
InvLinear == (pc = "done" /\ kind = "linear") => LinearInitOK(cfg, K, Lo, Hi, Zero)
\* monotonicity + bounds only: the (strict) weight constraint leaves the initial kernel unchanged
MonoBoundsOnly(c) == c.edge = <<>> /\ c.trap = <<>> /\ c.mdom = <<>> /\ c.rdom = <<>> /\ c.jmono = <<>> /\ c.juni = <<>>
                     /\ \A d \in Dims(c) : c.uni[d] = 0
InvLinearFixed == (pc = "done" /\ kind = "linear" /\ MonoBoundsOnly(cfg)) => Constrain(cfg, K) = K
InvLinearFeasible == (pc = "done" /\ kind = "linear") => MonoOK(cfg, K, Zero) /\ UniOK(cfg, K, Zero) /\ BoundsOK(cfg, K, Zero)
\* random: every vertex has a larger index than each of its predecessors, indices are a permutation
InvRandomOrder == (pc = "done" /\ kind = "random") =>
  /\ \A v \in Vertices(cfg), d \in Dims(cfg) : v[d] < cfg.sizes[d] - 1 => idx[v] < idx[Up(cfg, v, d)]
  /\ {idx[v] : v \in Vertices(cfg)} = 0..(NumV(cfg) - 1)
=============================================================================
