------------------------------- MODULE CrystalsOps -------------------------------
(* premade_lib._get_final_crystal_lattices as pure operators: from the prefitting model's torsion /  *)
(* Laplacian scores to the ensemble: use allocation (Python round = half to even), round-robin add    *)
(* list, greedy placement (four score cases, ties to the highest lattice index).  The final swap      *)
(* optimisation only exchanges entries between lattices, so it preserves what C17 requires.            *)
(* c = [nf, nl (num_lattices), rank]; features are 1..nf; tt the symmetric torsion table, lp Laplacians. *)
EXTENDS Integers, Sequences, FiniteSets, Rat, TLC
F(c) == 1..c.nf
Total(c) == c.nl * c.rank
Importance(c, tt, lp) == [f \in F(c) |-> RAdd(R(6 * lp[f]), RSumSeq([g \in F(c) |-> R(IF g = f THEN 0 ELSE tt[f][g])]))]
\* np.argsort(-scores): descending, ties in ascending index (stable)
RECURSIVE OrderDesc(_, _)
OrderDesc(imp, S) == IF S = {} THEN <<>>
                     ELSE LET b == CHOOSE f \in S : \A g \in S : RLt(imp[g], imp[f]) \/ (imp[g] = imp[f] /\ f <= g)
                          IN <<b>> \o OrderDesc(imp, S \ {b})
\* Python 3 round(): to nearest, ties to even (q >= 0 here)
RoundHE(q) == LET fl == RFloor(q)  fr == RSub(q, R(fl)) IN
              IF RLt(fr, <<1, 2>>) THEN fl ELSE IF RLt(<<1, 2>>, fr) THEN fl + 1 ELSE IF fl % 2 = 0 THEN fl ELSE fl + 1
\* use allocation.  fixed = TRUE is the repaired code (features of zero importance - necessarily all the
\* remaining ones, the order being descending - split the remaining uses evenly); fixed = FALSE is the
\* original, which computed 0/0 there (ok = FALSE marks the resulting "cannot convert float NaN to integer").
RECURSIVE Alloc(_, _, _, _, _, _, _)
Alloc(c, imp, order, uses, remUses, remScores, fixed) ==
  IF order = <<>> THEN [ok |-> TRUE, uses |-> uses]
  ELSE LET f == Head(order) IN
       IF ~fixed /\ remScores = Zero THEN [ok |-> FALSE, uses |-> uses]
       ELSE LET share == IF fixed /\ imp[f] = Zero THEN Norm(1, Len(order)) ELSE RDiv(imp[f], remScores)
                a0 == RoundHE(RMul(R(remUses), share))
                a == IF a0 > c.nl - 1 THEN c.nl - 1 ELSE a0
            IN Alloc(c, imp, Tail(order), [uses EXCEPT ![f] = uses[f] + a], remUses - a, RSub(remScores, imp[f]), fixed)
UsesOf(c, tt, lp, fixed) == LET imp == Importance(c, tt, lp)
                            IN Alloc(c, imp, OrderDesc(imp, F(c)), [f \in F(c) |-> 1], Total(c) - c.nf,
                                     RSumSeq([f \in F(c) |-> imp[f]]), fixed)
Uses(c, tt, lp) == UsesOf(c, tt, lp, TRUE)
SumUses(c, u) == LET RECURSIVE S(_) S(f) == IF f = 0 THEN 0 ELSE u[f] + S(f - 1) IN S(c.nf)
MaxUse(c, u) == CHOOSE m \in {u[f] : f \in F(c)} : \A f \in F(c) : u[f] <= m
RECURSIVE AddList(_, _, _, _)
AddList(c, u, use, f) == IF use > MaxUse(c, u) THEN <<>>
                      ELSE IF f > c.nf THEN AddList(c, u, use + 1, 1)
                      ELSE (IF use <= u[f] THEN <<f>> ELSE <<>>) \o AddList(c, u, use, f + 1)
\* ---- greedy placement -------------------------------------------------------------------------
InSeq(x, s) == \E k \in 1..Len(s) : s[k] = x
Pow2(n) == LET RECURSIVE P(_) P(k) == IF k = 0 THEN 1 ELSE 2 * P(k - 1) IN P(n)
Disc(t, cnt) == Norm(t, Pow2(cnt))                       \* torsion * 0.5^count
MeanT(c, tt) == Norm(LET RECURSIVE S(_, _) S(a, b) == IF a > c.nf THEN 0 ELSE IF b > c.nf THEN S(a + 1, 1) ELSE tt[a][b] + S(a, b + 1) IN S(1, 1), c.nf * c.nf)
Score(c, tt, co, lats, k, f) ==
  IF Len(lats[k]) >= c.rank THEN R(-2)
  ELSE IF InSeq(f, lats[k]) THEN R(-1)
  ELSE IF lats[k] = <<>> THEN RMul(MeanT(c, tt), Norm(c.rank * c.rank, 2))
  ELSE RSumSeq([p \in 1..Len(lats[k]) |-> Disc(tt[f][lats[k][p]], co[f][lats[k][p]])])
Best(c, tt, co, lats, f) == CHOOSE k \in 1..c.nl :
                           \A j \in 1..c.nl : RLt(Score(c, tt, co, lats, j, f), Score(c, tt, co, lats, k, f))
                                                     \/ (Score(c, tt, co, lats, j, f) = Score(c, tt, co, lats, k, f) /\ j <= k)
RECURSIVE Place(_, _, _, _, _)
Place(c, tt, co, lats, adds) ==       \* returns <<lattices, cooccurrence counts>>
  IF adds = <<>> THEN <<lats, co>>
  ELSE LET f == Head(adds)  k == Best(c, tt, co, lats, f)
           inc == [a \in F(c) |-> [b \in F(c) |->
                     LET n == Cardinality({p \in 1..Len(lats[k]) : (a = f /\ lats[k][p] = b) \/ (b = f /\ lats[k][p] = a)})
                     IN co[a][b] + n]]
       IN Place(c, tt, inc, [lats EXCEPT ![k] = Append(lats[k], f)], Tail(adds))
\* ---- what C17 requires of the final ensemble ---------------------------------------------------
EnsembleOK(c, lats) == /\ \A k \in 1..Len(lats) : Len(lats[k]) = c.rank
                    /\ \A f \in F(c) : \E k \in 1..Len(lats) : InSeq(f, lats[k])
Zero2(c) == [a \in F(c) |-> [b \in F(c) |-> 0]]
Placed(c, tt, lp) == Place(c, tt, Zero2(c), [k \in 1..c.nl |-> <<>>], AddList(c, Uses(c, tt, lp).uses, 1, 1))

\* np.argsort is not stable: every descending order of the scores is a possible visiting order
DescOrders(c, imp) == {o \in [1..c.nf -> F(c)] : /\ \A p, q \in 1..c.nf : p # q => o[p] # o[q]
                                                  /\ \A r \in 1..(c.nf - 1) : RLeq(imp[o[r + 1]], imp[o[r]])}
PossibleUses(c, tt, lp) == LET imp == Importance(c, tt, lp)
                           IN {Alloc(c, imp, o, [f \in F(c) |-> 1], Total(c) - c.nf, RSumSeq([f \in F(c) |-> imp[f]]), TRUE).uses
                                 : o \in DescOrders(c, imp)}
PlacedFrom(c, tt, uses) == Place(c, tt, Zero2(c), [k \in 1..c.nl |-> <<>>], AddList(c, uses, 1, 1))
ZeroTail(c, tt, lp) == LET imp == Importance(c, tt, lp)  ord == OrderDesc(imp, F(c))
                       IN \E n \in 1..c.nf : RSumSeq([m \in 1..(c.nf - n + 1) |-> imp[ord[n + m - 1]]]) = Zero
=============================================================================
