--------------------------- MODULE GenPartialOrder ---------------------------
EXTENDS MC_PartialOrder
Tier == IOEnv.VERIF_TIER
Out == IF Tier = "quick" THEN <<CaseFile(SpaceQ, DomQ)>>
       ELSE <<CaseFile(SpaceT1, DomT1), CaseFile(SpaceT2, DomT2), CaseFile(SpaceT3, DomT3)>>
ASSUME ndJsonSerialize(IOEnv.CASES_OUT, Out)
=============================================================================
