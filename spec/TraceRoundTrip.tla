---------------------------- MODULE TraceRoundTrip ----------------------------
(* code -> spec for C11: each event is one real round trip                                           *)
(*   [ev |-> "RoundTrip", cls, status, cfg1, cfg2 (canonical configs: nested records / tuples of strings), *)
(*    vars1, vars2 (names and shapes of the variables), outs1, outs2 (probe outputs, fixed point), tolu]     *)
(*    outs3 (optional: format |-> probe outputs of the layer after model.save / load_model in that format)]  *)
(* status "ok" means every step of the protocol ran; anything else names the step that raised.             *)
EXTENDS Integers, Sequences, TLC, TraceBase
VARIABLE l
tvars == <<l>>
NearI(a, b, t) == Len(a) = Len(b) /\ \A n \in 1..Len(a) : a[n] - b[n] <= t /\ b[n] - a[n] <= t
Clauses(e) ==
  IF e.status # "ok" THEN {"RoundTripSucceeds:" \o e.status}
  ELSE (IF e.cfg1 = e.cfg2 THEN {} ELSE {"ConfigEqual"})
       \cup (IF e.vars1 = e.vars2 THEN {} ELSE {"VariablesEqual"})
       \cup (IF NearI(e.outs1, e.outs2, e.tolu) THEN {} ELSE {"OutputsEqual"})
       \cup (IF Has(e, "outs3") /\ \E f \in DOMAIN e.outs3 : ~NearI(e.outs1, e.outs3[f], e.tolu) THEN {"SavedModelOutputsEqual"} ELSE {})
TraceInit == l = 1
TraceNext == /\ l <= Len(Trace) /\ l' = l + 1 /\ Record(Trace[l].i, Clauses(Trace[l]))
TraceSpec == TraceInit /\ [][TraceNext]_tvars
ASSUME TLCSet(1, {})
=============================================================================
