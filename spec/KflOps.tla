------------------------------- MODULE KflOps -------------------------------
(* tfl.layers.KroneckerFactoredLattice (one unit; units are pointwise lifts):                  *)
(*   out(x) = bias + mean_t scale[t] * prod_d ( sum_i w[i,d,t] * phi_i(x_d) )                  *)
(* and its weight / scale constraints (the finalize functions of kronecker_factored_lattice_lib).             *)
(* The two-sided bound projection divides by the dims-th root of a factor, which is not        *)
(* rational: a kernel is kept as (w, P) meaning the true weight w[i,d,t] / P[t]^(1/dims); the  *)
(* layer output only needs prod_d(..)/P[t], which is rational, and the representation is       *)
(* closed under every constraint step (clip, sign-aware monotone projection, bound scaling).    *)
(* cfg = [L (lattice_sizes), dims, terms, mono (seq 0/1), hasMin, omin, hasMax, omax, clip]     *)
EXTENDS Integers, Sequences, FiniteSets, Rat, TLC

Keys(c) == {<<i, d, t>> : i \in 0..(c.L - 1), d \in 1..c.dims, t \in 1..c.terms}
Terms(c) == 1..c.terms

\* interpolation weight of vertex i at coordinate v (the code special-cases lattice_sizes = 2)
ClipIn(c, v) == IF c.clip THEN RClip(v, Zero, R(c.L - 1)) ELSE v
Phi(c, i, v0) == LET v == ClipIn(c, v0) IN
                 IF c.L = 2 THEN (IF i = 0 THEN RSub(One, v) ELSE v)
                 ELSE RSub(One, RMin(RAbs(RSub(R(i), v)), One))
RECURSIVE SumI(_, _, _, _, _, _)
SumI(c, w, d, t, x, i) == IF i < 0 THEN Zero
                          ELSE RAdd(RMul(w[<<i, d, t>>], Phi(c, i, x[d])), SumI(c, w, d, t, x, i - 1))
RECURSIVE ProdD(_, _, _, _, _)
ProdD(c, w, t, x, d) == IF d = 0 THEN One ELSE RMul(SumI(c, w, d, t, x, c.L - 1), ProdD(c, w, t, x, d - 1))
RECURSIVE SumT(_, _, _, _, _, _)
SumT(c, w, P, s, x, t) == IF t = 0 THEN Zero
                          ELSE RAdd(RDiv(RMul(s[t], ProdD(c, w, t, x, c.dims)), P[t]), SumT(c, w, P, s, x, t - 1))
KflEval(c, w, P, s, b, x) == RAdd(b, RDiv(SumT(c, w, P, s, x, c.terms), R(c.terms)))

Bias(c) == IF c.hasMin /\ c.hasMax THEN RHalf(RAdd(c.omin, c.omax))
           ELSE IF c.hasMin THEN c.omin ELSE IF c.hasMax THEN c.omax ELSE Zero

\* ---- constraints ------------------------------------------------------------------------------
AnyMono(c) == \E d \in 1..c.dims : c.mono[d] = 1
HasBound(c) == c.hasMin \/ c.hasMax
ClipNonNeg(c, w) == [k \in Keys(c) |-> RMax(w[k], Zero)]
RECURSIVE CumMaxK(_, _, _, _, _)
CumMaxK(c, y, i, d, t) == IF i = 0 THEN y[<<0, d, t>>] ELSE RMax(y[<<i, d, t>>], CumMaxK(c, y, i - 1, d, t))
RECURSIVE CumMinK(_, _, _, _, _)
CumMinK(c, y, i, d, t) == IF i = c.L - 1 THEN y[<<i, d, t>>] ELSE RMin(y[<<i, d, t>>], CumMinK(c, y, i + 1, d, t))
\* _approximately_project_monotonicity: direction = sign(scale) per term
MonoProject(c, w, s) ==
  LET dir(t) == RSign(s[t])
      y == [k \in Keys(c) |-> RMul(R(dir(k[3])), w[k])]
      half == [k \in Keys(c) |-> IF c.mono[k[2]] = 1 THEN RHalf(RAdd(y[k], CumMaxK(c, y, k[1], k[2], k[3]))) ELSE y[k]]
      z == [k \in Keys(c) |-> IF c.mono[k[2]] = 1 THEN CumMinK(c, half, k[1], k[2], k[3]) ELSE y[k]]
  IN [k \in Keys(c) |-> RMul(R(dir(k[3])), z[k])]
\* _approximately_project_bounds: product over dims of max_i |w| (true weights), factor = max(., 1)
RECURSIVE MaxAbsI(_, _, _, _, _)
MaxAbsI(c, w, d, t, i) == IF i = 0 THEN RAbs(w[<<0, d, t>>]) ELSE RMax(RAbs(w[<<i, d, t>>]), MaxAbsI(c, w, d, t, i - 1))
RECURSIVE MaxProd(_, _, _, _)
MaxProd(c, w, t, d) == IF d = 0 THEN One ELSE RMul(MaxAbsI(c, w, d, t, c.L - 1), MaxProd(c, w, t, d - 1))
BoundFactor(c, w, P, t) == RMax(RDiv(MaxProd(c, w, t, c.dims), P[t]), One)
\* KroneckerFactoredLatticeConstraints.__call__ ; guardFixed = FALSE reproduces the original guard
\* (`if self.num_constraint_dims`), under which bounds without monotonicity are never enforced
KernelConstrain(c, w, P, s, guardFixed) ==
  IF ~(AnyMono(c) \/ (guardFixed /\ HasBound(c))) THEN <<w, P>>
  ELSE LET w1 == IF AnyMono(c) THEN MonoProject(c, ClipNonNeg(c, w), s) ELSE w
       IN IF c.hasMin /\ c.hasMax THEN <<w1, [t \in Terms(c) |-> RMul(P[t], BoundFactor(c, w1, P, t))]>>
          ELSE IF HasBound(c) THEN <<ClipNonNeg(c, w1), P>>
          ELSE <<w1, P>>
ScaleConstrain(c, s) ==
  IF c.hasMin /\ c.hasMax THEN LET b == RHalf(RSub(c.omax, c.omin)) IN [t \in Terms(c) |-> RClip(s[t], RNeg(b), b)]
  ELSE IF c.hasMin THEN [t \in Terms(c) |-> RMax(s[t], Zero)]
  ELSE IF c.hasMax THEN [t \in Terms(c) |-> RMin(s[t], Zero)]
  ELSE s

\* ---- contract (C07) on a grid of input points --------------------------------------------------
Leq(a, b, tol) == RLeq(a, RAdd(b, tol))
BoundedAt(c, out, tol) == (c.hasMin => Leq(c.omin, out, tol)) /\ (c.hasMax => Leq(out, c.omax, tol))
=============================================================================
