------------------------------ MODULE AssertOps ------------------------------
(* C12: the oracle for assert_constraints(eps).  For every layer kind, OK(c, w, tol) says that   *)
(* every constraint kind the assertion covers holds up to tol, in the assertion's own measure:    *)
(*   Lattice  monotonicity, Edgeworth / trapezoid trust, monotonic / range dominance, joint        *)
(*            monotonicity, output bounds                               (LatticeOps predicates)    *)
(*   PWL      monotone keypoint outputs, bounds or clamps on the extreme outputs                   *)
(*   Linear   signs, monotonic / range dominance, unit L1 norm                                     *)
(*   Cat      ordering pairs, bounds                                                               *)
(*   KFL      sign-aware monotone keypoints, prod_d max_i|w| <= 1 (two-sided) or w >= 0 (one-sided), *)
(*            scale range                                                                          *)
(* The contract:  ~OK(c, w, 3 eps) => the call must fail;  OK(c, w, 0) => the call must pass.      *)
(* c.kind selects the layer; w is a flat sequence of rationals (KFL: kernel entries then scales).  *)
EXTENDS Integers, Sequences, FiniteSets, Rat, TLC
L == INSTANCE LatticeOps
PO == INSTANCE PartialOrderOps
K == INSTANCE KflOps

Leq(a, b, tol) == RLeq(a, RAdd(b, tol))
RECURSIVE Cum(_, _)
Cum(w, i) == IF i = 1 THEN w[1] ELSE RAdd(Cum(w, i - 1), w[i])

LatticeOK(c, w, tol) ==
  LET x == L!Unflat(c, w) IN
  /\ L!MonoOK(c, x, tol) /\ L!EdgeOK(c, x, tol) /\ L!TrapOK(c, x, tol) /\ L!MDomOK(c, x, tol)
  /\ L!RDomOK(c, x, RHalf(tol)) /\ L!JMonoOK(c, x, tol) /\ L!BoundsOK(c, x, tol)

\* c = [kind |-> "pwl", mono, hasMin, omin, clampMin, hasMax, omax, clampMax]; w = <<bias, heights>>
PwlOK(c, w, tol) ==
  LET n == Len(w)
      o == [i \in 1..n |-> Cum(w, i)]
      mn == RMinSeq(o)  mx == RMaxSeq(o)
  IN /\ (c.hasMin => IF c.clampMin THEN RNear(mn, c.omin, tol) ELSE Leq(c.omin, mn, tol))
     /\ (c.hasMax => IF c.clampMax THEN RNear(mx, c.omax, tol) ELSE Leq(mx, c.omax, tol))
     /\ (c.mono # 0 => \A i \in 1..(n - 1) :
           IF c.mono = 1 THEN Leq(o[i], o[i + 1], tol) ELSE Leq(o[i + 1], o[i], tol))

\* c = PartialOrderOps linear record (norm \in {0, 1})
LinearOK(c, w, tol) ==
  /\ \A i \in 1..Len(w) : (c.mono[i] = 1 => Leq(Zero, w[i], tol)) /\ (c.mono[i] = -1 => Leq(w[i], Zero, tol))
  /\ PO!MDomOK(c, w, tol) /\ PO!RDomOK(c, w, tol)
  /\ (c.norm = 1 => RLt(PO!L1(w), PO!NormEps) \/ RNear(PO!L1(w), One, tol))
\* the norm assertion is strict (|norm - 1| < eps): at tol = 0 require exactly 1 - or exactly 0, the one vector
\* that cannot be rescaled. (Norms strictly between 0 and NormEps are left undetermined: the projection's "too small
\* to rescale" threshold is an implementation constant, and a small but non-zero norm does not meet the constraint.)
LinearOKExact(c, w) == LinearOK(c, w, Zero) /\ (c.norm = 1 => PO!L1(w) = Zero \/ PO!L1(w) = One)

CatOK(c, w, tol) == PO!PairsOK(c.pairs, w, tol) /\ PO!CatBoundsOK(c, w, tol)

\* c = KflOps record; w = kernel entries in (i, d, t) order followed by the scales
KIdx(c, k) == 1 + (k[1] * c.dims + (k[2] - 1)) * c.terms + (k[3] - 1)
KflOK(c, w, tol) ==
  LET nk == c.L * c.dims * c.terms
      wt(i, d, t) == w[KIdx(c, <<i, d, t>>)]
      s(t) == w[nk + t]
      RECURSIVE MaxAbs(_, _, _)
      MaxAbs(d, t, i) == IF i = 0 THEN RAbs(wt(0, d, t)) ELSE RMax(RAbs(wt(i, d, t)), MaxAbs(d, t, i - 1))
      RECURSIVE MP(_, _)
      MP(t, d) == IF d = 0 THEN One ELSE RMul(MaxAbs(d, t, c.L - 1), MP(t, d - 1))
  IN /\ \A d \in 1..c.dims, t \in 1..c.terms, i \in 0..(c.L - 2) :
          c.mono[d] = 1 => Leq(RMul(R(RSign(s(t))), wt(i, d, t)), RMul(R(RSign(s(t))), wt(i + 1, d, t)), tol)
     /\ (c.hasMin /\ c.hasMax => \A t \in 1..c.terms : Leq(MP(t, c.dims), One, tol))
     /\ ((c.hasMin \/ c.hasMax) /\ ~(c.hasMin /\ c.hasMax) => \A n \in 1..nk : RLeq(Zero, w[n]))
     /\ (c.hasMin /\ c.hasMax => \A t \in 1..c.terms :
           LET b == RHalf(RSub(c.omax, c.omin)) IN RLeq(RNeg(b), s(t)) /\ RLeq(s(t), b))
     /\ (c.hasMin /\ ~c.hasMax => \A t \in 1..c.terms : RLeq(Zero, s(t)))
     /\ (c.hasMax /\ ~c.hasMin => \A t \in 1..c.terms : RLeq(s(t), Zero))

OK(c, w, tol) == CASE c.kind = "lattice" -> LatticeOK(c, w, tol)
                   [] c.kind = "pwl" -> PwlOK(c, w, tol)
                   [] c.kind = "linear" -> LinearOK(c, w, tol)
                   [] c.kind = "cat" -> CatOK(c, w, tol)
                   [] c.kind = "kfl" -> KflOK(c, w, tol)
MustFail(c, w, eps) == ~OK(c, w, RMul(R(3), eps))
MustPass(c, w, eps) == IF c.kind = "linear" THEN LinearOKExact(c, w) ELSE OK(c, w, Zero)
=============================================================================
