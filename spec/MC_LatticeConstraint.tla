------------------------ MODULE MC_LatticeConstraint ------------------------
(* Model-checking instances of LatticeConstraint: configuration spaces as cross products.    *)
EXTENDS LatticeConstraint, Json, IOUtils, SequencesExt

Zs(n) == [i \in 1..n |-> 0]
Base(s) == [sizes |-> s, mono |-> Zs(Len(s)), uni |-> Zs(Len(s)), edge |-> <<>>, trap |-> <<>>,
            mdom |-> <<>>, rdom |-> <<>>, jmono |-> <<>>, juni |-> <<>>,
            hasMin |-> FALSE, omin |-> Zero, hasMax |-> FALSE, omax |-> One, iters |-> 1, strict |-> TRUE]
T3(m, c) == {<<>>, << <<m, c, 1>> >>, << <<m, c, -1>> >>}
NoB == <<FALSE, FALSE>>
BothB == <<TRUE, TRUE>>
AllB == {<<FALSE, FALSE>>, <<TRUE, TRUE>>, <<TRUE, FALSE>>, <<FALSE, TRUE>>}
Mk(s, m, u, e, t, b, hi, it, st) ==
  [Base(s) EXCEPT !.mono = m, !.uni = u, !.edge = e, !.trap = t, !.hasMin = b[1], !.hasMax = b[2],
                  !.omax = R(hi), !.iters = it, !.strict = st]

WithFam(c, md, rd, jm, ju) == [c EXCEPT !.mdom = md, !.rdom = rd, !.jmono = jm, !.juni = ju]

\* ---- quick ---------------------------------------------------------------------------------
\* q1: 2x2, kernels over -1..2: monotonicity x Edgeworth x trapezoid (either direction) x bounds x sweeps
SpaceQ1 == {Mk(<<2, 2>>, m, <<0, 0>>, e, t, b, 1, it, TRUE) :
              m \in {<<1, 0>>, <<1, 1>>}, e \in T3(1, 2), t \in T3(1, 2), b \in {NoB, BothB}, it \in {0, 1}}
           \cup {Mk(<<2, 2>>, <<1, 1>>, <<0, 0>>, <<>>, <<>>, b, 1, 2, st) : b \in AllB, st \in BOOLEAN}
           \* a one-sided bound of exactly zero together with a trust (the bounds step after the trust passes)
           \cup {Mk(<<2, 2>>, <<1, 0>>, <<0, 0>>, e, t, b[1], b[2], 1, TRUE) :
                   e \in T3(1, 2), t \in {<<>>, << <<1, 2, 1>> >>}, b \in {<< <<TRUE, FALSE>>, 1 >>, << <<FALSE, TRUE>>, 0 >>}}
DomQ1 == -1..2
\* q2: 2x2x2 and 3x3, kernels over {0,1}: the interacting combinations
SpaceQ2 ==
  {Mk(<<2, 2, 2>>, m, <<0, 0, 0>>, e, t, NoB, 1, 1, TRUE) :
     m \in {<<1, 1, 0>>, <<1, 0, 0>>},
     e \in {<<>>, << <<1, 3, 1>> >>, << <<1, 3, -1>> >>},
     t \in {<<>>, << <<1, 2, 1>> >>, << <<1, 2, 1>>, <<1, 3, 1>> >>, << <<1, 3, -1>>, <<2, 3, -1>> >>}}
  \cup {Mk(<<3, 3>>, <<1, 0>>, <<0, 0>>, e, t, BothB, 1, 1, TRUE) :
          e \in {<<>>, << <<1, 2, 1>> >>}, t \in {<<>>, << <<1, 2, 1>> >>}}
  \cup {Mk(<<3, 3>>, <<0, 0>>, u, <<>>, <<>>, NoB, 1, 1, TRUE) : u \in {<<1, 0>>, <<-1, 1>>}}
  \cup {WithFam(Base(<<3, 3>>), <<>>, <<>>, <<>>, ju) :
          ju \in {<< <<<<1, 2>>, "valley">> >>, << <<<<1, 2>>, "peak">> >>}}
DomQ2 == 0..1
\* q3: the approximately enforced families alongside (2x2 / 3x2 / 2x3, kernels over 0..2)
SpaceQ3 ==
  {WithFam(Mk(s, <<1, 1>>, <<0, 0>>, e, <<>>, b, 2, 1, TRUE), md, rd, <<>>, <<>>) :
     s \in {<<2, 2>>, <<3, 2>>}, e \in {<<>>, << <<1, 2, 1>> >>}, b \in {NoB, BothB},
     md \in {<<>>, << <<1, 2>> >>}, rd \in {<<>>, << <<2, 1>> >>}}
  \cup {WithFam(Mk(s, <<1, 0>>, <<0, 0>>, <<>>, t, NoB, 2, 1, TRUE), <<>>, <<>>, jm, <<>>) :
     s \in {<<2, 2>>, <<2, 3>>}, t \in {<<>>, << <<1, 2, -1>> >>}, jm \in {<<>>, << <<1, 2>> >>}}
  \cup {WithFam(Mk(<<2, 3>>, <<0, 0>>, <<0, 0>>, <<>>, <<>>, b, 2, 1, TRUE), <<>>, <<>>, <<>>, ju) :
     b \in {NoB, BothB}, ju \in {<< <<<<2>>, "valley">> >>, << <<<<2>>, "peak">> >>}}
DomQ3 == 0..1

\* the configuration of the known finding C01-trapezoid-pass-breaks-monotonicity (self-test)
SpaceKnown == {Mk(<<2, 2, 2>>, <<1, 1, 0>>, <<0, 0, 0>>, << <<1, 3, 1>> >>, << <<1, 2, 1>> >>, NoB, 1, 1, TRUE)}

\* ---- thorough ------------------------------------------------------------------------------
SpaceT1 == {Mk(<<2, 2>>, m, <<0, 0>>, e, t, b, 2, it, st) :
              m \in {<<1, 0>>, <<1, 1>>, <<0, 1>>}, e \in T3(1, 2) \cup T3(2, 1), t \in T3(1, 2) \cup T3(2, 1),
              b \in AllB, it \in {0, 1, 2}, st \in BOOLEAN}
DomT1 == -1..2
SpaceT2 ==
  {Mk(<<2, 2, 2>>, m, <<0, 0, 0>>, e, t, b, 2, it, TRUE) :
     m \in {<<1, 1, 0>>, <<1, 0, 0>>, <<1, 1, 1>>, <<1, 0, 1>>},
     e \in {<<>>, << <<1, 3, 1>> >>, << <<1, 3, -1>> >>, << <<1, 2, 1>> >>, << <<1, 2, 1>>, <<1, 3, -1>> >>},
     t \in {<<>>, << <<1, 2, 1>> >>, << <<1, 2, -1>> >>, << <<1, 3, 1>> >>, << <<1, 2, 1>>, <<1, 3, 1>> >>,
            << <<1, 3, 1>>, <<2, 3, 1>> >>, << <<1, 3, -1>>, <<2, 3, 1>> >>},
     b \in {NoB, BothB}, it \in {0, 1}}
DomT2 == 0..2
SpaceT3 ==
  {Mk(s, m, <<0, 0>>, e, t, b, 2, it, TRUE) :
     s \in {<<3, 2>>, <<2, 3>>, <<3, 3>>}, m \in {<<1, 0>>, <<1, 1>>}, e \in T3(1, 2), t \in T3(1, 2),
     b \in {NoB, BothB}, it \in {0, 1, 2}}
DomT3 == 0..2
SpaceT3b == {c \in SpaceT3 : c.sizes # <<3, 3>>}
SpaceT4 == {c \in SpaceT3 : c.sizes = <<3, 3>>}
DomT4 == 0..1
\* two exact sweeps only where at most one of the three-way averaging families is configured: with two of them
\* the denominators (2^a 3^b) outgrow TLC's 32-bit integers in the second sweep (an overflow is a machinery error)
SpaceT5 ==
  {c \in {WithFam(Mk(s, <<1, 1>>, <<0, 0>>, e, <<>>, b, 2, it, TRUE), md, rd, jm, <<>>) :
     s \in {<<2, 2>>, <<3, 2>>, <<2, 3>>}, e \in {<<>>, << <<1, 2, 1>> >>, << <<2, 1, -1>> >>}, b \in {NoB, BothB},
     it \in {1, 2}, md \in {<<>>, << <<1, 2>> >>}, rd \in {<<>>, << <<2, 1>> >>, << <<1, 2>> >>},
     jm \in {<<>>, << <<1, 2>> >>}} :
     c.iters = 1 \/ Cardinality({f \in {"mdom", "rdom", "jmono"} :
                                   (f = "mdom" /\ c.mdom # <<>>) \/ (f = "rdom" /\ c.rdom # <<>>) \/ (f = "jmono" /\ c.jmono # <<>>)}) <= 1}
  \cup {WithFam(Mk(s, m, u, <<>>, <<>>, b, 2, it, TRUE), <<>>, <<>>, jm, ju) :
     s \in {<<2, 3>>}, m \in {<<0, 0>>}, u \in {<<0, 0>>}, b \in {NoB, BothB}, it \in {1, 2},
     jm \in {<<>>, << <<1, 2>> >>},
     ju \in {<<>>, << <<<<2>>, "valley">> >>, << <<<<2>>, "peak">> >>}}
  \cup {Mk(s, m, u, <<>>, <<>>, b, 2, it, TRUE) :
     s \in {<<3, 2>>, <<2, 3>>}, m \in {<<0, 0>>, <<1, 0>>, <<0, 1>>}, u \in {<<0, 1>>, <<0, -1>>, <<1, 0>>, <<-1, 0>>},
     b \in {NoB, BothB}, it \in {1, 2}}
DomT5 == 0..2

CaseFile(space, dom) == [cfgs |-> SetToSeq({c \in space : ValidCfg(c)}), vals |-> SetToSeq(dom)]
=============================================================================
