-------------------------- MODULE MC_PwlConstraint --------------------------
(* Model-checking instances of PwlConstraint: configuration space as a cross product.        *)
EXTENDS PwlConstraint, Json, IOUtils, SequencesExt

BT == {"N", "B", "C"}
Mk(m, cv, a, b, lo, hi, l, it) ==
  [mono |-> m, conv |-> cv, minT |-> a, maxT |-> b, omin |-> R(lo), omax |-> R(hi),
   len |-> RSeq(l), iters |-> it]
\* canonical: lengths only matter with convexity; bounds values only when bounded
Canon(c) == /\ (c.conv = 0 => \A i \in 1..Len(c.len) : c.len[i] = One)
            /\ (c.minT = "N" /\ c.maxT = "N" => c.omax = One)
Space(Lens, His, Its) ==
  {c \in {Mk(m, cv, a, b, 0, hi, l, it) :
            m \in -1..1, cv \in -1..1, a \in BT, b \in BT, hi \in His, l \in Lens, it \in Its} :
     Canon(c)}

\* quick: 3 keypoints
LensQ == {<<1, 1>>, <<1, 2>>, <<2, 1>>}
SpaceQ == Space(LensQ, {1}, {0, 1, 2})
ValsQ == -1..2
\* thorough: 3 and 4 keypoints, 3 sweeps
LensT3 == {<<1, 1>>, <<1, 2>>, <<2, 1>>, <<1, 3>>}
LensT4 == {<<1, 1, 1>>, <<1, 2, 1>>, <<2, 1, 1>>, <<1, 1, 2>>}
SpaceT3 == Space(LensT3, {1, 2}, {0, 1, 2, 3})
SpaceT4 == Space(LensT4, {1}, {0, 1, 2})
ValsT == -2..3
ValsT4 == -1..2

\* ---- case generation (spec -> code): the valid configurations and the kernel domain of a tier,
\* written as JSON from the same definitions Init uses (see GenPwl.tla)
CaseFile(space, vals) == [cfgs |-> SetToSeq({c \in space : ValidCfg(c)}), vals |-> SetToSeq(vals)]
=============================================================================
